//! Helpers for driving the real decoder.

use crate::bits::fnv;
use crate::evidence::catch;
use crate::refdec::Planes;
use h263_rs::parser::H263Reader;
use h263_rs::{DecoderOption, H263State};

pub fn options(sorenson: bool, scalability: bool) -> DecoderOption {
    let mut o = DecoderOption::empty();
    if sorenson {
        o |= DecoderOption::SORENSON_SPARK_BITSTREAM;
    }
    if scalability {
        o |= DecoderOption::USE_SCALABILITY_MODE;
    }
    o
}
pub fn options_from_bits(b: u8) -> DecoderOption {
    options(b & 1 != 0, b & 2 != 0)
}

#[derive(Clone, Debug, PartialEq, Eq)]
pub enum Outcome {
    Ok,
    Err(String),
    Panic(String),
}
impl Outcome {
    pub fn is_ok(&self) -> bool {
        matches!(self, Outcome::Ok)
    }
    pub fn is_err(&self) -> bool {
        matches!(self, Outcome::Err(_))
    }
    pub fn is_panic(&self) -> bool {
        matches!(self, Outcome::Panic(_))
    }
    pub fn short(&self) -> String {
        match self {
            Outcome::Ok => "Ok".into(),
            Outcome::Err(e) => format!("Err({e})"),
            Outcome::Panic(p) => format!("PANIC({p})"),
        }
    }
}

/// One `decode_next_picture` call on a fresh reader over `bytes`.
pub fn decode_bytes(st: &mut H263State, bytes: &[u8]) -> Outcome {
    // the input slice starts at a changing byte offset of its buffer: where the bytes lie in memory
    // must not matter (small inputs only; large ones are not copied)
    if bytes.len() <= 4096 {
        let off = PLACE.with(|c| {
            let v = c.get();
            c.set((v + 5) % 16);
            v
        });
        let mut buf = vec![0xEEu8; bytes.len() + 16];
        buf[off..off + bytes.len()].copy_from_slice(bytes);
        let mut rd = H263Reader::from_source(&buf[off..off + bytes.len()]);
        return decode_with(st, &mut rd);
    }
    let mut rd = H263Reader::from_source(bytes);
    decode_with(st, &mut rd)
}

thread_local! {
    static POISON: std::cell::Cell<u8> = const { std::cell::Cell::new(0xA5) };
    static PLACE: std::cell::Cell<usize> = const { std::cell::Cell::new(0) };
}

/// Dirty the allocator's free lists with buffers of the sizes the next picture's planes will
/// probably have (those of the most recent picture), so that a plane that is not completely
/// written shows whatever was there instead of the zeros of a fresh heap. Small pictures only:
/// large allocations come straight from the kernel and are always zero.
pub fn poison_heap(st: &H263State) {
    let Some(p) = st.get_last_picture() else { return };
    let (y, cb, _) = p.as_yuv();
    if y.len() > 1 << 16 {
        return;
    }
    let v = POISON.with(|c| {
        let v = c.get();
        c.set(v.wrapping_mul(29).wrapping_add(71) | 1);
        v
    });
    let bufs: Vec<Vec<u8>> = [y.len(), cb.len(), cb.len(), y.len(), cb.len(), cb.len()].iter().map(|&n| vec![v; n]).collect();
    std::hint::black_box(&bufs);
    drop(bufs);
}

pub fn decode_with<R: std::io::Read>(st: &mut H263State, rd: &mut H263Reader<R>) -> Outcome {
    poison_heap(st);
    match catch(|| st.decode_next_picture(rd)) {
        Ok(Ok(())) => Outcome::Ok,
        Ok(Err(e)) => Outcome::Err(format!("{e:?}").split('(').next().unwrap().to_string()),
        Err(p) => Outcome::Panic(p),
    }
}

/// What the public API shows of the most recent picture.
#[derive(Clone, Debug, PartialEq, Eq, Hash)]
pub struct Snap {
    pub dims: Option<(u16, u16)>,
    pub y: Vec<u8>,
    pub cb: Vec<u8>,
    pub cr: Vec<u8>,
    pub crow: usize,
    pub tr: u16,
    pub ptype: String,
    pub q: u8,
    pub options: u32,
    pub version: Option<u8>,
}
impl Snap {
    pub fn planes(&self) -> Option<Planes> {
        let (w, h) = self.dims?;
        Some(Planes {
            w: w as usize,
            h: h as usize,
            cw: (w as usize + 1) / 2,
            ch: (h as usize + 1) / 2,
            y: self.y.clone(),
            cb: self.cb.clone(),
            cr: self.cr.clone(),
        })
    }
    pub fn hash(&self) -> u64 {
        let mut v = self.y.clone();
        v.extend_from_slice(&self.cb);
        v.extend_from_slice(&self.cr);
        v.extend_from_slice(format!("{:?}{}{}{}{}{:?}", self.dims, self.tr, self.ptype, self.q, self.options, self.version).as_bytes());
        fnv(&v)
    }
}

pub fn snap_of(p: &h263_rs::verif::DecodedPicture) -> Snap {
    let (y, cb, cr) = p.as_yuv();
    let h = p.as_header();
    Snap {
        dims: p.format().into_width_and_height(),
        y: y.to_vec(),
        cb: cb.to_vec(),
        cr: cr.to_vec(),
        crow: p.chroma_samples_per_row(),
        tr: h.temporal_reference,
        ptype: format!("{:?}", h.picture_type),
        q: h.quantizer,
        options: h.options.bits(),
        version: h.version,
    }
}

pub fn last_snap(st: &H263State) -> Option<Snap> {
    st.get_last_picture().map(snap_of)
}

/// The decoder's entire state: the hooked scalar fields plus a hash of every stored picture.
pub type StateKey = ((u8, Option<u16>, Option<u16>, u32, Vec<u16>), Vec<u64>);
pub fn state_key(st: &H263State) -> StateKey {
    let vs = st.verif_state();
    let pics = vs.4.iter().map(|k| snap_of(st.verif_stored(*k).unwrap()).hash()).collect();
    (vs, pics)
}

/// Parallel map over an index range with rayon, preserving order.
pub fn par_map<T: Send, F: Fn(usize) -> T + Sync + Send>(n: usize, f: F) -> Vec<T> {
    use rayon::prelude::*;
    (0..n).into_par_iter().map(f).collect()
}

/// Byte source that can be topped up: it answers with what it has (zero bytes when dry) and is read
/// on from the same place once more data has been appended.
pub struct GrowSrc {
    pub data: std::rc::Rc<std::cell::RefCell<Vec<u8>>>,
    pub pos: usize,
}
impl std::io::Read for GrowSrc {
    fn read(&mut self, buf: &mut [u8]) -> std::io::Result<usize> {
        let d = self.data.borrow();
        let n = buf.len().min(d.len() - self.pos);
        buf[..n].copy_from_slice(&d[self.pos..self.pos + n]);
        self.pos += n;
        Ok(n)
    }
}

/// Delivery in two pieces: one reader over a source that first holds `concat[..split]`; a call that
/// fails is repeated once after the rest has been appended. `expect` holds what the same calls show
/// when everything is there from the start. `Ok(false)`: a call was *accepted* on the shortened
/// data with a shorter picture (the early-end rule; C05 models that case), nothing to compare.
pub fn deliver_in_two(opts: u8, init: &[&[u8]], concat: &[u8], split: usize, expect: &[Option<Snap>]) -> Result<bool, String> {
    let mut st = H263State::new(options_from_bits(opts));
    for b in init {
        let _ = decode_bytes(&mut st, b);
    }
    let data = std::rc::Rc::new(std::cell::RefCell::new(concat[..split].to_vec()));
    let mut rd = H263Reader::from_source(GrowSrc { data: data.clone(), pos: 0 });
    let mut appended = false;
    for (i, want) in expect.iter().enumerate() {
        loop {
            match decode_with(&mut st, &mut rd) {
                Outcome::Panic(p) => return Err(format!("panic {p}")),
                Outcome::Err(e) => {
                    if appended {
                        return Err(format!("picture {i} fails with {e} after the rest of the data has arrived (first delivery: {split} of {} bytes)", concat.len()));
                    }
                    data.borrow_mut().extend_from_slice(&concat[split..]);
                    appended = true;
                }
                Outcome::Ok => {
                    if last_snap(&st) == *want {
                        break;
                    }
                    if !appended {
                        return Ok(false);
                    }
                    return Err(format!("picture {i} differs from one-piece delivery (first delivery: {split} of {} bytes)", concat.len()));
                }
            }
        }
    }
    Ok(true)
}
