//! MSB-first bit writer and bit-vector helpers (independent of /repo).

#[derive(Clone, Debug, Default)]
pub struct BitWriter {
    pub bytes: Vec<u8>,
    pub nbits: usize,
}

impl BitWriter {
    pub fn new() -> Self {
        Self::default()
    }
    /// Append the low `n` bits of `val`, most significant first.
    pub fn put(&mut self, val: u32, n: u32) {
        for i in (0..n).rev() {
            let bit = ((val >> i) & 1) as u8;
            if self.nbits % 8 == 0 {
                self.bytes.push(0);
            }
            let last = self.bytes.len() - 1;
            self.bytes[last] |= bit << (7 - (self.nbits % 8));
            self.nbits += 1;
        }
    }
    pub fn put_bool(&mut self, b: bool) {
        self.put(b as u32, 1)
    }
    pub fn put_bits(&mut self, bits: &[bool]) {
        for b in bits {
            self.put(*b as u32, 1);
        }
    }
    /// Zero bits up to the next byte boundary; returns how many were added.
    pub fn align(&mut self) -> usize {
        let n = (8 - self.nbits % 8) % 8;
        self.put(0, n as u32);
        n
    }
    pub fn append(&mut self, other: &BitWriter) {
        let bits = bits_of(&other.bytes);
        self.put_bits(&bits[..other.nbits]);
    }
}

pub fn bits_of(bytes: &[u8]) -> Vec<bool> {
    bytes
        .iter()
        .flat_map(|b| (0..8).rev().map(move |i| (b >> i) & 1 == 1))
        .collect()
}

pub fn val_of(bits: &[bool]) -> u64 {
    bits.iter().fold(0, |a, b| (a << 1) | *b as u64)
}

pub fn hex(bytes: &[u8]) -> String {
    let mut s = String::with_capacity(bytes.len() * 2);
    for b in bytes {
        s.push_str(&format!("{:02x}", b));
    }
    s
}

pub fn unhex(s: &str) -> Vec<u8> {
    (0..s.len() / 2)
        .map(|i| u8::from_str_radix(&s[2 * i..2 * i + 2], 16).unwrap())
        .collect()
}

/// Fixed LCG used for *filler content only* (never to select which cases run).
#[derive(Clone)]
pub struct Lcg(pub u64);
impl Lcg {
    pub fn new(seed: u64) -> Self {
        Lcg(seed.wrapping_mul(0x9E3779B97F4A7C15).wrapping_add(0x1234567))
    }
    pub fn next(&mut self) -> u32 {
        self.0 = self
            .0
            .wrapping_mul(6364136223846793005)
            .wrapping_add(1442695040888963407);
        (self.0 >> 33) as u32
    }
    pub fn below(&mut self, n: u32) -> u32 {
        self.next() % n
    }
    pub fn range(&mut self, lo: i32, hi: i32) -> i32 {
        lo + self.below((hi - lo + 1) as u32) as i32
    }
}

/// FNV-1a 64 for content hashes in state keys and evidence.
pub fn fnv(data: &[u8]) -> u64 {
    let mut h: u64 = 0xcbf29ce484222325;
    for b in data {
        h ^= *b as u64;
        h = h.wrapping_mul(0x100000001b3);
    }
    h
}
