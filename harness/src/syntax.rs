//! Abstract picture syntax trees and their encoder to bits (independent of /repo).

use crate::bits::BitWriter;
use crate::refhdr::{SHdr, StdHdr};
use crate::tables::*;

#[derive(Clone, Copy, Debug, PartialEq, Eq, Hash)]
pub enum Kind {
    Inter,
    Intra,
    InterQ,
    IntraQ,
    Inter4V,
    Inter4VQ,
}
pub const ALL_KINDS: [Kind; 6] =
    [Kind::Inter, Kind::InterQ, Kind::Inter4V, Kind::Inter4VQ, Kind::Intra, Kind::IntraQ];
impl Kind {
    pub fn is_intra(self) -> bool {
        matches!(self, Kind::Intra | Kind::IntraQ)
    }
    pub fn has_q(self) -> bool {
        matches!(self, Kind::InterQ | Kind::IntraQ | Kind::Inter4VQ)
    }
    pub fn is_4v(self) -> bool {
        matches!(self, Kind::Inter4V | Kind::Inter4VQ)
    }
    fn mcbpc_type(self) -> usize {
        match self {
            Kind::Inter => 0,
            Kind::Intra => 1,
            Kind::InterQ => 2,
            Kind::IntraQ => 3,
            Kind::Inter4V => 4,
            Kind::Inter4VQ => 6,
        }
    }
}

#[derive(Clone, Copy, Debug, PartialEq, Eq, Hash)]
pub enum Form {
    Short,
    Esc8,
    Esc7,
    Esc11,
}

#[derive(Clone, Debug, PartialEq, Eq, Hash)]
pub struct Ev {
    pub run: u8,
    pub level: i16,
    pub form: Form,
}

#[derive(Clone, Debug, Default, PartialEq, Eq, Hash)]
pub struct Blk {
    pub dc: Option<u8>,
    pub ev: Vec<Ev>,
}
impl Blk {
    pub fn dc(v: u8) -> Blk {
        Blk { dc: Some(v), ev: vec![] }
    }
    pub fn empty() -> Blk {
        Blk::default()
    }
}

#[derive(Clone, Debug, PartialEq, Eq, Hash)]
pub enum Mb {
    NotCoded,
    Stuffing,
    Coded { kind: Kind, dquant: i8, mvd: Vec<(i8, i8)>, blocks: [Blk; 6] },
    /// hostile / invalid tokens: raw bits written verbatim
    Raw(Vec<bool>),
}

impl Mb {
    pub fn intra_dc(dcs: [u8; 6]) -> Mb {
        Mb::Coded {
            kind: Kind::Intra,
            dquant: 0,
            mvd: vec![],
            blocks: std::array::from_fn(|i| Blk::dc(dcs[i])),
        }
    }
    pub fn intra_flat(v: u8) -> Mb {
        Mb::intra_dc([v; 6])
    }
    pub fn inter(mvd: (i8, i8)) -> Mb {
        Mb::Coded { kind: Kind::Inter, dquant: 0, mvd: vec![mvd], blocks: Default::default() }
    }
}

#[derive(Clone, Debug, PartialEq, Eq, Hash)]
pub enum Hdr {
    S(SHdr),
    Std(StdHdr),
}

#[derive(Clone, Copy, Debug, PartialEq, Eq, Hash)]
pub enum PicType {
    I,
    P,
    D,
    Other,
}

impl Hdr {
    pub fn dims(&self) -> Option<(u16, u16)> {
        match self {
            Hdr::S(h) => h.size.dims(),
            Hdr::Std(h) => match h.expect(false, None) {
                crate::refhdr::Verdict::Exact(e) | crate::refhdr::Verdict::ExactOrErr(e, _) => {
                    e.format.and_then(|f| f.dims())
                }
                _ => None,
            },
        }
    }
    pub fn pic_type(&self) -> PicType {
        match self {
            Hdr::S(h) => match h.ptype {
                0 => PicType::I,
                1 => PicType::P,
                2 => PicType::D,
                _ => PicType::Other,
            },
            Hdr::Std(h) => match &h.plus {
                None => {
                    if h.pb {
                        PicType::Other
                    } else if h.inter {
                        PicType::P
                    } else {
                        PicType::I
                    }
                }
                Some(p) => match p.mpp_type {
                    0 => PicType::I,
                    1 => PicType::P,
                    _ => PicType::Other,
                },
            },
        }
    }
    pub fn q(&self) -> u8 {
        match self {
            Hdr::S(h) => h.q,
            Hdr::Std(h) => h.pquant,
        }
    }
    pub fn tr(&self) -> u8 {
        match self {
            Hdr::S(h) => h.tr,
            Hdr::Std(h) => h.tr,
        }
    }
    /// The temporal reference as the decoder reports it (ten bits with a custom picture clock).
    pub fn tr_full(&self) -> u16 {
        match self {
            Hdr::S(h) => h.tr as u16,
            Hdr::Std(h) => match &h.plus {
                Some(p) if p.ufep == 1 && p.opp.custom_pcf => ((p.etr as u16 & 3) << 8) | h.tr as u16,
                _ => h.tr as u16,
            },
        }
    }
    pub fn is_sorenson(&self) -> bool {
        matches!(self, Hdr::S(_))
    }
    /// Sorenson version-1 streams use the 7/11-bit escape forms.
    pub fn v1(&self) -> bool {
        matches!(self, Hdr::S(h) if h.version == 1)
    }
    pub fn put(&self, w: &mut BitWriter) {
        match self {
            Hdr::S(h) => h.put(w),
            Hdr::Std(h) => h.put(w, false, 0),
        }
    }
    /// How motion vector differentials are coded and combined with their predictor.
    pub fn mv_mode(&self) -> MvMode {
        match self {
            Hdr::S(_) => MvMode::Wrap,
            Hdr::Std(h) => match &h.plus {
                None if h.umv => MvMode::UmvBaseline,
                Some(p) if p.ufep == 1 && p.opp.modes & 0x200 != 0 => MvMode::UmvPlus { limited: p.uui == 1 },
                _ => MvMode::Wrap,
            },
        }
    }
}

/// Motion vector modes (H.263 6.1.1, Annex D as of 1996, Annex D as of 1998 with Table D.3).
#[derive(Clone, Copy, Debug, PartialEq, Eq)]
pub enum MvMode {
    /// Table 14 differentials, vector = predictor + differential wrapped into [-16, 15.5]
    Wrap,
    /// Table 14 differentials, vectors up to +-31.5 (PTYPE bit 10 without PLUSPTYPE)
    UmvBaseline,
    /// Table D.3 differentials, vector = predictor + differential; `limited`: UUI = 1, the range
    /// depends on the picture size (Tables D.1, D.2)
    UmvPlus { limited: bool },
}

/// Table D.3 code of a differential in half-sample units.
pub fn put_umv(w: &mut BitWriter, v: i32) {
    if v == 0 {
        w.put(1, 1);
        return;
    }
    let a = v.unsigned_abs();
    let n = 31 - a.leading_zeros();
    w.put(0, 1);
    for k in (0..n).rev() {
        w.put((a >> k) & 1, 1);
        w.put(1, 1);
    }
    w.put((v < 0) as u32, 1);
    w.put(0, 1);
}

#[derive(Clone, Debug, PartialEq, Eq, Hash)]
pub struct Pic {
    pub hdr: Hdr,
    pub mbs: Vec<Mb>,
}

pub fn short_index(last: bool, run: u8, level: u8) -> Option<usize> {
    let range = if last { 58..102 } else { 0..58 };
    range.into_iter().find(|&k| TCOEF_RUN[k] == run && TCOEF_LEVEL[k] == level)
}

/// The natural escape form for a stream kind.
pub fn esc_form(v1: bool, level: i16) -> Form {
    if v1 {
        if (-63..=63).contains(&level) {
            Form::Esc7
        } else {
            Form::Esc11
        }
    } else {
        Form::Esc8
    }
}

/// Event with the short form when the table has it, else the stream's escape form.
pub fn ev_auto(last: bool, run: u8, level: i16, v1: bool) -> Ev {
    let a = level.unsigned_abs();
    if a <= 12 && short_index(last, run, a as u8).is_some() {
        Ev { run, level, form: Form::Short }
    } else {
        Ev { run, level, form: esc_form(v1, level) }
    }
}

pub fn put_mvd(w: &mut BitWriter, v: i8) {
    let a = v.unsigned_abs() as usize;
    let (c, l) = MVD_VLC[a];
    w.put(c, l);
    if a > 0 {
        w.put((v < 0) as u32, 1);
    }
}

pub fn put_event(w: &mut BitWriter, e: &Ev, last: bool) {
    match e.form {
        Form::Short => {
            let k = short_index(last, e.run, e.level.unsigned_abs() as u8).expect("not a short code");
            let (c, l) = TCOEF_VLC[k];
            w.put(c, l);
            w.put((e.level < 0) as u32, 1);
        }
        f => {
            let (c, l) = TCOEF_VLC[102];
            w.put(c, l);
            let width = match f {
                Form::Esc8 => 8,
                Form::Esc7 => {
                    w.put(0, 1);
                    7
                }
                Form::Esc11 => {
                    w.put(1, 1);
                    11
                }
                _ => unreachable!(),
            };
            w.put(last as u32, 1);
            w.put(e.run as u32, 6);
            w.put((e.level as i32 as u32) & ((1 << width) - 1), width);
        }
    }
}

pub fn put_block(w: &mut BitWriter, b: &Blk) {
    if let Some(dc) = b.dc {
        w.put(dc as u32, 8);
    }
    let n = b.ev.len();
    for (i, e) in b.ev.iter().enumerate() {
        put_event(w, e, i + 1 == n);
    }
}

pub fn put_mb(w: &mut BitWriter, is_i: bool, mb: &Mb) {
    put_mb_mode(w, is_i, mb, MvMode::Wrap)
}

pub fn put_mb_mode(w: &mut BitWriter, is_i: bool, mb: &Mb, mode: MvMode) {
    match mb {
        Mb::NotCoded => {
            assert!(!is_i);
            w.put(1, 1);
        }
        Mb::Stuffing => {
            if !is_i {
                w.put(0, 1);
            }
            w.put(1, 9);
        }
        Mb::Raw(bits) => w.put_bits(bits),
        Mb::Coded { kind, dquant, mvd, blocks } => {
            if !is_i {
                w.put(0, 1);
            }
            let cbp: Vec<bool> = blocks.iter().map(|b| !b.ev.is_empty()).collect();
            let cbpc = (cbp[4] as usize) * 2 + cbp[5] as usize;
            if is_i {
                let idx = if *kind == Kind::IntraQ {
                    4
                } else {
                    assert_eq!(*kind, Kind::Intra);
                    0
                } + cbpc;
                let (c, l) = MCBPC_I[idx];
                w.put(c, l);
            } else {
                let (c, l) = MCBPC_P[kind.mcbpc_type() * 4 + cbpc];
                w.put(c, l);
            }
            let mut pat = (cbp[0] as usize) << 3
                | (cbp[1] as usize) << 2
                | (cbp[2] as usize) << 1
                | cbp[3] as usize;
            if !kind.is_intra() {
                pat ^= 15;
            }
            let (c, l) = CBPY[pat];
            w.put(c, l);
            if kind.has_q() {
                w.put(
                    match dquant {
                        -1 => 0,
                        -2 => 1,
                        1 => 2,
                        2 => 3,
                        _ => panic!("bad dquant"),
                    },
                    2,
                );
            }
            if !kind.is_intra() {
                assert_eq!(mvd.len(), if kind.is_4v() { 4 } else { 1 });
                for (x, y) in mvd {
                    if matches!(mode, MvMode::UmvPlus { .. }) {
                        put_umv(w, *x as i32);
                        put_umv(w, *y as i32);
                    } else {
                        put_mvd(w, *x);
                        put_mvd(w, *y);
                    }
                }
            }
            for b in blocks.iter() {
                put_block(w, b);
            }
        }
    }
}

pub fn encode(p: &Pic) -> BitWriter {
    let mut w = BitWriter::new();
    p.hdr.put(&mut w);
    let is_i = p.hdr.pic_type() == PicType::I;
    let mode = p.hdr.mv_mode();
    for mb in &p.mbs {
        put_mb_mode(&mut w, is_i, mb, mode);
    }
    w
}

pub fn encode_bytes(p: &Pic) -> Vec<u8> {
    encode(p).bytes
}

pub fn mb_grid(w: u16, h: u16) -> (usize, usize) {
    ((w as usize + 15) / 16, (h as usize + 15) / 16)
}
