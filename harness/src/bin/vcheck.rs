//! vcheck <ID> <quick|thorough>   |   vcheck replay <file>
use h263_verif::engines;
use h263_verif::evidence::{install_panic_hook, Tier};

fn main() {
    let args: Vec<String> = std::env::args().collect();
    if args.len() < 3 {
        eprintln!("usage: vcheck <ID> <quick|thorough> | vcheck replay <file>");
        std::process::exit(2);
    }
    install_panic_hook();
    if args[1] == "replay" {
        std::process::exit(engines::replay_file(&args[2]));
    }
    if args[1] == "det-child" {
        std::process::exit(engines::determinism::child(&args[2..]));
    }
    if args[1] == "crash-worker" {
        std::process::exit(engines::worker_entry(&args[2..]));
    }
    let tier = match args[2].as_str() {
        "quick" => Tier::Quick,
        "thorough" => Tier::Thorough,
        _ => {
            eprintln!("tier must be quick or thorough");
            std::process::exit(2);
        }
    };
    let id = args[1].to_uppercase();
    let rep = match engines::run(&id, tier) {
        Some(r) => r,
        None => {
            eprintln!("unknown property {id}");
            std::process::exit(2);
        }
    };
    std::process::exit(rep.finish());
}
