//! Bounded-exhaustive checking machinery for ruffle-rs/h263-rs (see /verif/DESIGN.md).
pub mod bits;
pub mod engines;
pub mod evidence;
pub mod refdec;
pub mod refhdr;
pub mod refpost;
pub mod syntax;
pub mod tables;
pub mod util;
