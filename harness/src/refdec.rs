//! Naive reference decoder operating on the syntax tree (never on the bits).
//! f64 ideal IDCT, per-sample loops, no fast paths.

use crate::syntax::*;
use crate::tables::zigzag;
use std::f64::consts::PI;

#[derive(Clone, Debug, PartialEq, Eq, Hash)]
pub struct Planes {
    pub w: usize,
    pub h: usize,
    pub cw: usize,
    pub ch: usize,
    pub y: Vec<u8>,
    pub cb: Vec<u8>,
    pub cr: Vec<u8>,
}
impl Planes {
    pub fn new(w: usize, h: usize) -> Self {
        let cw = (w + 1) / 2;
        let ch = (h + 1) / 2;
        Planes { w, h, cw, ch, y: vec![0; w * h], cb: vec![0; cw * ch], cr: vec![0; cw * ch] }
    }
    pub fn from_yuv(w: usize, h: usize, y: &[u8], cb: &[u8], cr: &[u8]) -> Self {
        let mut p = Planes::new(w, h);
        p.y = y.to_vec();
        p.cb = cb.to_vec();
        p.cr = cr.to_vec();
        p
    }
}

/// Dequantised coefficients of a block, `c[v][u]` (row = vertical frequency).
pub fn block_coefs(b: &Blk, q: u8) -> Result<[[i32; 8]; 8], String> {
    let zz = zigzag();
    let mut c = [[0i32; 8]; 8];
    let mut idx = 0usize;
    if let Some(dc) = b.dc {
        if dc == 0 || dc == 128 {
            return Err("forbidden INTRADC".into());
        }
        c[0][0] = if dc == 255 { 1024 } else { dc as i32 * 8 };
        idx = 1;
    }
    for e in &b.ev {
        idx += e.run as usize;
        if idx >= 64 {
            return Err("run past coefficient 63".into());
        }
        let (x, y) = zz[idx];
        c[y][x] = dequant(e.level as i32, q);
        idx += 1;
    }
    Ok(c)
}

/// sign(L) * (Q(2|L|+1) - [Q even]) saturated to -2048..2047
pub fn dequant(level: i32, q: u8) -> i32 {
    if level == 0 {
        return 0;
    }
    let mut v = q as i32 * (2 * level.abs() + 1);
    if q % 2 == 0 {
        v -= 1;
    }
    (level.signum() * v).clamp(-2048, 2047)
}

pub fn idct_ideal(c: &[[i32; 8]; 8]) -> [[f64; 8]; 8] {
    let mut o = [[0.0; 8]; 8];
    for y in 0..8 {
        for x in 0..8 {
            let mut s = 0.0;
            for v in 0..8 {
                for u in 0..8 {
                    if c[v][u] == 0 {
                        continue;
                    }
                    let cu = if u == 0 { 0.5f64.sqrt() } else { 1.0 };
                    let cv = if v == 0 { 0.5f64.sqrt() } else { 1.0 };
                    s += cu
                        * cv
                        * c[v][u] as f64
                        * ((2 * x + 1) as f64 * u as f64 * PI / 16.0).cos()
                        * ((2 * y + 1) as f64 * v as f64 * PI / 16.0).cos();
                }
            }
            o[y][x] = s / 4.0;
        }
    }
    o
}

pub type Mv = (i32, i32); // half-sample units

pub fn median(a: i32, b: i32, c: i32) -> i32 {
    a.max(b).min(a.min(b).max(c))
}
/// reduce modulo 64 half-samples into -32..=31
pub fn wrap(v: i32) -> i32 {
    (v + 32).rem_euclid(64) - 32
}
/// Half-sample limit R of the size-dependent vector range [-R, R) of Annex D (Tables D.1 and
/// D.2): 32 samples up to CIF, doubling at 4CIF and 16CIF sizes, 256 samples for wider pictures.
pub fn umv_limit(dim: usize, is_x: bool) -> i32 {
    if is_x {
        match dim {
            0..=352 => 64,
            353..=704 => 128,
            705..=1408 => 256,
            _ => 512,
        }
    } else {
        match dim {
            0..=288 => 64,
            289..=576 => 128,
            _ => 256,
        }
    }
}

/// One vector component from predictor `p` and coded differential `d`. `Err` = the stream is not
/// a legal one for this mode (the model has no expectation then).
pub fn recon_mv(mode: MvMode, p: i32, d: i32, dim: usize, is_x: bool) -> Result<i32, String> {
    match mode {
        MvMode::Wrap => Ok(wrap(p + d)),
        MvMode::UmvBaseline => {
            // Annex D (1996): vectors lie in [-31.5, 31.5]; a predictor in [-15.5, 16] takes the
            // differential as it is, otherwise the one of the two values of the Table 14 pair
            // that lands on the predictor's side of zero
            let alt = match d.cmp(&0) {
                std::cmp::Ordering::Greater => d - 64,
                std::cmp::Ordering::Less => d + 64,
                _ => 0,
            };
            let legal = |v: i32| if p > 32 { (0..=63).contains(&v) } else if p < -31 { (-63..=0).contains(&v) } else { (-63..=63).contains(&v) };
            let mut cands = vec![p + d];
            if !(-31..=32).contains(&p) && alt != d {
                cands.push(p + alt);
            }
            cands.retain(|v| legal(*v));
            if cands.len() == 1 {
                Ok(cands[0])
            } else {
                Err(format!("{} legal vectors for predictor {p} and differential {d}", cands.len()))
            }
        }
        MvMode::UmvPlus { limited } => {
            let v = p + d;
            let r = if limited { umv_limit(dim, is_x) } else { 4096 };
            if (-r..r).contains(&v) {
                Ok(v)
            } else {
                Err(format!("vector {v} outside the range for this picture size"))
            }
        }
    }
}

/// chroma component from the sum of four luma components (sixteenth-position table)
pub fn chroma_comp(sum: i32) -> i32 {
    let a = sum.abs();
    let whole = a / 16;
    let f = a % 16;
    let r = 2 * whole
        + match f {
            0..=2 => 0,
            14..=15 => 2,
            _ => 1,
        };
    if sum < 0 {
        -r
    } else {
        r
    }
}
fn sample(p: &[u8], w: usize, h: usize, x: i32, y: i32) -> i32 {
    let x = x.clamp(0, w as i32 - 1) as usize;
    let y = y.clamp(0, h as i32 - 1) as usize;
    p[y * w + x] as i32
}
pub fn mc_sample(p: &[u8], w: usize, h: usize, x: i32, y: i32, mv: Mv) -> i32 {
    let hx = 2 * x + mv.0;
    let hy = 2 * y + mv.1;
    let ix = hx.div_euclid(2);
    let iy = hy.div_euclid(2);
    let fx = hx.rem_euclid(2) == 1;
    let fy = hy.rem_euclid(2) == 1;
    let a = sample(p, w, h, ix, iy);
    let b = sample(p, w, h, ix + 1, iy);
    let c = sample(p, w, h, ix, iy + 1);
    let d = sample(p, w, h, ix + 1, iy + 1);
    match (fx, fy) {
        (false, false) => a,
        (true, false) => (a + b + 1) / 2,
        (false, true) => (a + c + 1) / 2,
        (true, true) => (a + b + c + d + 2) / 4,
    }
}

/// Candidate predictors (6.1.1 / Annex F) and their component-wise median for luma block `k` of
/// macroblock `i`; `mvs` = vectors of all previous macroblocks, `cur` = vectors of this one so far.
pub fn predict(mvs: &[[Mv; 4]], cur: &[Mv; 4], i: usize, mbw: usize, k: usize) -> Mv {
    let (mx, my) = (i % mbw, i / mbw);
    let left = |blk: usize| -> Mv {
        if mx == 0 {
            (0, 0)
        } else {
            mvs[i - 1][blk]
        }
    };
    let c1 = match k {
        0 => left(1),
        2 => left(3),
        1 => cur[0],
        _ => cur[2],
    };
    let (c2, c3) = if k >= 2 {
        (cur[0], cur[1])
    } else if my == 0 {
        // first row: candidates 2 and 3 take the value of candidate 1
        (c1, c1)
    } else {
        let above = mvs[i - mbw][if k == 0 { 2 } else { 3 }];
        let ar = if mx + 1 == mbw { (0, 0) } else { mvs[i - mbw + 1][2] };
        (above, ar)
    };
    (median(c1.0, c2.0, c3.0), median(c1.1, c2.1, c3.1))
}

#[derive(Clone, Debug)]
pub struct Tol {
    pub ideal: Vec<f64>,
    pub eps: Vec<f64>,
}

#[derive(Clone, Debug)]
pub struct Decoded {
    pub planes: Planes,
    pub tol: [Tol; 3],
    /// reconstructed luma vectors per macroblock (half-sample units)
    pub mvs: Vec<[Mv; 4]>,
    /// quantizer in force after the last macroblock
    pub final_q: i32,
    /// number of macroblock tokens consumed (including stuffing), for stream-position models
    pub consumed_tokens: usize,
}

/// Decode a *valid* picture. `Err` = the model says this picture must be rejected.
pub fn decode(pic: &Pic, reference: Option<&Planes>) -> Result<Decoded, String> {
    let (w16, h16) = pic.hdr.dims().ok_or("reserved format")?;
    let (w, h) = (w16 as usize, h16 as usize);
    if w == 0 || h == 0 {
        return Err("zero dimension".into());
    }
    let ptype = pic.hdr.pic_type();
    if ptype == PicType::Other {
        return Err("unsupported picture type".into());
    }
    let is_i = ptype == PicType::I;
    let mv_mode = pic.hdr.mv_mode();
    let (mbw, mbh) = mb_grid(w16, h16);
    let mut out = Planes::new(w, h);
    let mk = |n: usize| Tol { ideal: vec![0.0; n], eps: vec![0.0; n] };
    let mut tol = [mk(w * h), mk(out.cw * out.ch), mk(out.cw * out.ch)];
    let mut q = pic.hdr.q() as i32;
    let mut mvs: Vec<[Mv; 4]> = vec![];
    // take macroblocks until the picture is full; stuffing does not count
    let mut coded: Vec<&Mb> = vec![];
    let mut consumed = 0;
    for m in &pic.mbs {
        if coded.len() == mbw * mbh {
            break;
        }
        consumed += 1;
        match m {
            Mb::Stuffing => {}
            Mb::Raw(_) => return Err("raw token".into()),
            m => coded.push(m),
        }
    }
    for i in 0..mbw * mbh {
        let (mx, my) = (i % mbw, i / mbw);
        let mb = coded.get(i).copied();
        let mut cur = [(0, 0); 4];
        let mut inter = true;
        let mut blocks: Option<&[Blk; 6]> = None;
        match mb {
            None => {
                if is_i {
                    // missing macroblocks of an intra picture: nothing to copy from
                    inter = true;
                }
            }
            Some(Mb::NotCoded) => {
                if is_i {
                    return Err("not-coded macroblock in an intra picture".into());
                }
            }
            Some(Mb::Stuffing) | Some(Mb::Raw(_)) => unreachable!(),
            Some(Mb::Coded { kind, dquant, mvd, blocks: b }) => {
                if is_i && !kind.is_intra() {
                    return Err("inter macroblock in an intra picture".into());
                }
                if kind.has_q() {
                    q = (q + *dquant as i32).clamp(1, 31);
                }
                blocks = Some(b);
                if kind.is_intra() {
                    inter = false;
                } else {
                    let n = if kind.is_4v() { 4 } else { 1 };
                    for k in 0..n {
                        let (px, py) = predict(&mvs, &cur, i, mbw, k);
                        cur[k] = (recon_mv(mv_mode, px, mvd[k].0 as i32, w, true)?, recon_mv(mv_mode, py, mvd[k].1 as i32, h, false)?);
                    }
                    if n == 1 {
                        cur = [cur[0]; 4];
                    }
                }
            }
        }
        mvs.push(if inter { cur } else { [(0, 0); 4] });
        let cmv = (
            chroma_comp(cur[0].0 + cur[1].0 + cur[2].0 + cur[3].0),
            chroma_comp(cur[0].1 + cur[1].1 + cur[2].1 + cur[3].1),
        );
        for blk in 0..6 {
            let (plane_w, plane_h, bx, by, mv) = if blk < 4 {
                (w, h, mx * 16 + (blk % 2) * 8, my * 16 + (blk / 2) * 8, cur[blk])
            } else {
                (out.cw, out.ch, mx * 8, my * 8, cmv)
            };
            let resid = match blocks {
                Some(b) => {
                    let c = block_coefs(&b[blk], q as u8)?;
                    let s: f64 = c.iter().flatten().map(|v| v.abs() as f64).sum();
                    Some((idct_ideal(&c), s))
                }
                None => None,
            };
            for yy in 0..8 {
                for xx in 0..8 {
                    let (x, y) = (bx + xx, by + yy);
                    if x >= plane_w || y >= plane_h {
                        continue;
                    }
                    let pred = if inter {
                        let r = reference.ok_or("no reference picture")?;
                        if r.w != w || r.h != h {
                            return Err("reference picture has another size".into());
                        }
                        let p = match blk {
                            0..=3 => &r.y,
                            4 => &r.cb,
                            _ => &r.cr,
                        };
                        mc_sample(p, plane_w, plane_h, x as i32, y as i32, mv)
                    } else {
                        0
                    };
                    let (rv, sabs) = match &resid {
                        Some((r, s)) => (r[yy][xx], *s),
                        None => (0.0, 0.0),
                    };
                    let rr = (rv.round() as i32).clamp(-256, 255);
                    let v = (pred + rr).clamp(0, 255) as u8;
                    let (pl, t) = match blk {
                        0..=3 => (&mut out.y, &mut tol[0]),
                        4 => (&mut out.cb, &mut tol[1]),
                        _ => (&mut out.cr, &mut tol[2]),
                    };
                    pl[y * plane_w + x] = v;
                    t.ideal[y * plane_w + x] = rv + pred as f64;
                    t.eps[y * plane_w + x] = 1e-5 + 1e-6 * sabs;
                }
            }
        }
    }
    Ok(Decoded { planes: out, tol, mvs, final_q: q, consumed_tokens: consumed })
}

#[derive(Default, Clone, Copy, Debug)]
pub struct CmpStats {
    pub samples: u64,
    pub ties: u64,
}

/// Compare one implementation plane with the model under the rounding-boundary rule.
pub fn compare_plane(name: &str, imp: &[u8], model: &[u8], tol: &Tol, st: &mut CmpStats) -> Option<String> {
    if imp.len() != model.len() {
        return Some(format!("{name}: length {} but the signalled size needs {}", imp.len(), model.len()));
    }
    for i in 0..imp.len() {
        st.samples += 1;
        if imp[i] != model[i] {
            let d = (imp[i] as i32 - model[i] as i32).abs();
            let fr = tol.ideal[i] - tol.ideal[i].floor();
            if d == 1 && (fr - 0.5).abs() <= tol.eps[i] {
                st.ties += 1;
                continue;
            }
            return Some(format!(
                "{name}[{i}]: decoder {} reference {} (ideal {:.5}, eps {:.1e})",
                imp[i], model[i], tol.ideal[i], tol.eps[i]
            ));
        }
    }
    None
}

pub fn compare(imp: (&[u8], &[u8], &[u8]), d: &Decoded, st: &mut CmpStats) -> Option<String> {
    compare_plane("Y", imp.0, &d.planes.y, &d.tol[0], st)
        .or_else(|| compare_plane("Cb", imp.1, &d.planes.cb, &d.tol[1], st))
        .or_else(|| compare_plane("Cr", imp.2, &d.planes.cr, &d.tol[2], st))
}
