//! Evidence files, violation collection, replay artefacts, known-findings matching, panic capture.

use serde_json::{json, Map, Value};
use std::cell::RefCell;
use std::collections::BTreeMap;
use std::path::PathBuf;
use std::sync::atomic::{AtomicU64, Ordering};
use std::sync::{Mutex, RwLock};
use std::time::Instant;

#[derive(Clone, Copy, Debug, PartialEq, Eq)]
pub enum Tier {
    Quick,
    Thorough,
}
impl Tier {
    pub fn name(self) -> &'static str {
        match self {
            Tier::Quick => "quick",
            Tier::Thorough => "thorough",
        }
    }
    pub fn thorough(self) -> bool {
        self == Tier::Thorough
    }
}

pub fn verif_root() -> PathBuf {
    std::env::var("VERIF_ROOT")
        .map(PathBuf::from)
        .unwrap_or_else(|_| PathBuf::from("/verif"))
}

pub fn seed() -> u64 {
    std::env::var("VERIF_SEED")
        .ok()
        .and_then(|s| s.parse::<i64>().ok())
        .map(|v| v as u64)
        .unwrap_or(0)
}

thread_local! {
    static LAST_PANIC: RefCell<Option<String>> = const { RefCell::new(None) };
}

/// Silence the default panic printing and remember message + location per thread.
pub fn install_panic_hook() {
    std::panic::set_hook(Box::new(|info| {
        let msg = if let Some(s) = info.payload().downcast_ref::<&str>() {
            (*s).to_string()
        } else if let Some(s) = info.payload().downcast_ref::<String>() {
            s.clone()
        } else {
            "<non-string panic>".to_string()
        };
        let loc = info
            .location()
            .map(|l| {
                // keep the path relative to the repository so signatures are stable
                let f = l.file();
                let f = f.rsplit_once("/repo/").map(|x| x.1).unwrap_or(f);
                format!("{}:{}", f, l.line())
            })
            .unwrap_or_default();
        if std::env::var_os("VERIF_SHOW_PANICS").is_some() {
            eprintln!("panic: {msg} @ {loc}");
        }
        LAST_PANIC.with(|p| *p.borrow_mut() = Some(format!("{msg} @ {loc}")));
    }));
}

/// Run `f`, converting a panic into `Err(message @ file:line)`.
pub fn catch<T>(f: impl FnOnce() -> T) -> Result<T, String> {
    match std::panic::catch_unwind(std::panic::AssertUnwindSafe(f)) {
        Ok(v) => Ok(v),
        Err(_) => Err(LAST_PANIC
            .with(|p| p.borrow_mut().take())
            .unwrap_or_else(|| "panic (no message captured)".into())),
    }
}

/// Reduce a panic message to a stable signature: the message with digits collapsed plus the
/// source file (no line number, so that unrelated edits do not change it).
pub fn panic_sig(msg: &str) -> String {
    let (m, loc) = msg.rsplit_once(" @ ").unwrap_or((msg, ""));
    let file = loc.rsplit_once(':').map(|x| x.0).unwrap_or(loc);
    let mut out = String::new();
    let mut last_digit = false;
    for c in m.chars() {
        if c.is_ascii_digit() {
            if !last_digit {
                out.push('N');
            }
            last_digit = true;
        } else {
            last_digit = false;
            out.push(if c == ' ' { '_' } else { c });
        }
    }
    out.truncate(80);
    format!("panic:{file}:{out}")
}

#[derive(Clone, Debug)]
pub struct Violation {
    pub sig: String,
    pub what: String,
    pub replay: Value,
}

pub struct Report {
    pub id: String,
    pub tier: Tier,
    pub engine: String,
    pub states: AtomicU64,
    pub transitions: AtomicU64,
    pub validated: AtomicU64,
    pub evaluations: AtomicU64,
    pub nontrivial: AtomicU64,
    pub rule: Mutex<String>,
    pub samples: Mutex<Vec<Value>>,
    pub exhaustive: Mutex<bool>,
    pub extra: Mutex<Map<String, Value>>,
    pub assumptions: Mutex<Vec<String>>,
    /// signature -> (first violation seen, count)
    pub violations: RwLock<BTreeMap<String, (Violation, AtomicU64)>>,
    start: Instant,
}

impl Report {
    pub fn new(id: &str, engine: &str, tier: Tier) -> Self {
        Report {
            id: id.to_string(),
            tier,
            engine: engine.to_string(),
            states: AtomicU64::new(0),
            transitions: AtomicU64::new(0),
            validated: AtomicU64::new(0),
            evaluations: AtomicU64::new(0),
            nontrivial: AtomicU64::new(0),
            rule: Mutex::new(String::new()),
            samples: Mutex::new(vec![]),
            exhaustive: Mutex::new(true),
            extra: Mutex::new(Map::new()),
            assumptions: Mutex::new(vec![]),
            violations: RwLock::new(BTreeMap::new()),
            start: Instant::now(),
        }
    }
    pub fn add_states(&self, n: u64) {
        self.states.fetch_add(n, Ordering::Relaxed);
    }
    /// One executed-and-compared step on the real implementation.
    pub fn add_transitions(&self, n: u64) {
        self.transitions.fetch_add(n, Ordering::Relaxed);
        self.validated.fetch_add(n, Ordering::Relaxed);
        self.evaluations.fetch_add(n, Ordering::Relaxed);
    }
    pub fn add_nontrivial(&self, n: u64) {
        self.nontrivial.fetch_add(n, Ordering::Relaxed);
    }
    pub fn set_rule(&self, s: &str) {
        let mut r = self.rule.lock().unwrap();
        if !r.is_empty() {
            r.push_str(" | ");
        }
        r.push_str(s);
    }
    pub fn sample(&self, v: Value) {
        let mut s = self.samples.lock().unwrap();
        if s.len() < 12 {
            s.push(v);
        }
    }
    pub fn extra(&self, k: &str, v: Value) {
        self.extra.lock().unwrap().insert(k.to_string(), v);
    }
    pub fn extra_add(&self, k: &str, n: u64) {
        let mut e = self.extra.lock().unwrap();
        let cur = e.get(k).and_then(|v| v.as_u64()).unwrap_or(0);
        e.insert(k.to_string(), json!(cur + n));
    }
    pub fn assume(&self, s: &str) {
        self.assumptions.lock().unwrap().push(s.to_string());
    }
    pub fn not_exhaustive(&self) {
        *self.exhaustive.lock().unwrap() = false;
    }
    pub fn violation(&self, sig: &str, what: String, replay: Value) {
        self.violation_lazy(sig, || (what, replay));
    }
    /// Record a violation; the description and replay are only built for the first case of a
    /// signature (later cases just count), so a mass failure stays cheap.
    pub fn violation_lazy(&self, sig: &str, make: impl FnOnce() -> (String, Value)) {
        {
            let r = self.violations.read().unwrap();
            if let Some(e) = r.get(sig) {
                e.1.fetch_add(1, Ordering::Relaxed);
                return;
            }
        }
        let mut w = self.violations.write().unwrap();
        if let Some(e) = w.get(sig) {
            e.1.fetch_add(1, Ordering::Relaxed);
            return;
        }
        let (what, replay) = make();
        w.insert(sig.to_string(), (Violation { sig: sig.to_string(), what, replay }, AtomicU64::new(1)));
    }
    /// true once this signature has been recorded (hot loops use it to skip formatting)
    pub fn known_sig(&self, sig: &str) -> bool {
        self.violations.read().unwrap().contains_key(sig)
    }
    pub fn violation_count(&self) -> usize {
        self.violations.read().unwrap().len()
    }

    /// Write evidence, print verdict lines, return the process exit code.
    pub fn finish(self) -> i32 {
        let root = verif_root();
        let known = load_known(&root, &self.id);
        let viols: BTreeMap<String, (Violation, u64)> = self.violations.into_inner().unwrap().into_iter().map(|(k, (v, c))| (k, (v, c.into_inner()))).collect();
        let mut unknown = 0u64;
        let mut unknown_cases = 0u64;
        let mut known_hit = vec![];
        let replay_dir = root.join("replays").join(&self.id);
        let mut k = 0;
        for (sig, (v, count)) in viols.iter() {
            if let Some(text) = known.iter().find(|(s, _)| s == sig).map(|x| x.1.clone()) {
                println!("KNOWN-FINDING: property={} sig={} {} ({} cases)", self.id, sig, text, count);
                known_hit.push(sig.clone());
                continue;
            }
            unknown += 1;
            unknown_cases += count;
            if k < 25 {
                let _ = std::fs::create_dir_all(&replay_dir);
                let path = replay_dir.join(format!("{}-{:02}.json", self.tier.name(), k));
                let doc = json!({
                    "property": self.id, "engine": self.engine, "signature": sig, "what": v.what,
                    "cases_with_this_signature": count, "case": v.replay,
                });
                let _ = std::fs::write(&path, serde_json::to_string_pretty(&doc).unwrap());
                println!("  {}: {} [{} case(s)]", sig, v.what, count);
                println!("VIOLATION property={} replay={}", self.id, path.display());
            }
            k += 1;
        }
        let wall = self.start.elapsed().as_secs_f64();
        let mut cov = self.extra.into_inner().unwrap();
        let states = self.states.load(Ordering::Relaxed);
        let transitions = self.transitions.load(Ordering::Relaxed);
        cov.insert("states".into(), json!(states));
        cov.insert("transitions".into(), json!(transitions));
        cov.insert(
            "traces_validated_against_impl".into(),
            json!(self.validated.load(Ordering::Relaxed)),
        );
        cov.insert("evaluations".into(), json!(self.evaluations.load(Ordering::Relaxed)));
        cov.insert("distinct_nontrivial".into(), json!(self.nontrivial.load(Ordering::Relaxed)));
        cov.insert("rule".into(), json!(self.rule.into_inner().unwrap()));
        cov.insert("samples".into(), Value::Array(self.samples.into_inner().unwrap()));
        cov.insert("exhaustive".into(), json!(self.exhaustive.into_inner().unwrap()));
        cov.insert("engine".into(), json!(self.engine));
        cov.insert("known_findings_hit".into(), json!(known_hit));
        cov.insert("violation_signatures".into(), json!(unknown));
        let ev = json!({
            "property_id": self.id, "tier": self.tier.name(), "seed": seed() as i64,
            "level": "model_checking", "coverage": Value::Object(cov),
            "assumptions": self.assumptions.into_inner().unwrap(),
            "wall_s": (wall * 1000.0).round() / 1000.0, "violations": unknown_cases,
        });
        let evdir = root.join("evidence");
        let _ = std::fs::create_dir_all(&evdir);
        let path = evdir.join(format!("{}.json", self.id));
        if let Err(e) = std::fs::write(&path, serde_json::to_string_pretty(&ev).unwrap() + "\n") {
            eprintln!("MACHINERY-ERROR: cannot write evidence {}: {e}", path.display());
            return 2;
        }
        println!(
            "{} {} [{}]: states={} transitions={} violations={} ({} signatures) wall={:.1}s",
            self.id,
            self.tier.name(),
            self.engine,
            states,
            transitions,
            unknown_cases,
            unknown,
            wall
        );
        if states == 0 || transitions == 0 {
            eprintln!("MACHINERY-ERROR: empty exploration");
            return 2;
        }
        if unknown > 0 {
            1
        } else {
            0
        }
    }
}

/// `finding:` lines of known_findings.txt for one property: (signature, text).
pub fn load_known(root: &std::path::Path, id: &str) -> Vec<(String, String)> {
    let mut out = vec![];
    if let Ok(s) = std::fs::read_to_string(root.join("known_findings.txt")) {
        for line in s.lines() {
            let line = line.trim();
            if let Some(rest) = line.strip_prefix("finding:") {
                let rest = rest.trim();
                let mut prop = "";
                let mut sig = "";
                let mut text = vec![];
                for tok in rest.split_whitespace() {
                    if let Some(p) = tok.strip_prefix("property=") {
                        prop = p;
                    } else if let Some(s) = tok.strip_prefix("sig=") {
                        sig = s;
                    } else {
                        text.push(tok);
                    }
                }
                if prop == id && !sig.is_empty() {
                    out.push((sig.to_string(), text.join(" ")));
                }
            }
        }
    }
    out
}
