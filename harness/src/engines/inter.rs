//! C03 (predicted pictures = motion-compensated reference + residual) and
//! C12 (motion vectors for every predictor/differential pair, chroma sums, neighbourhoods).

use super::common::*;
use crate::bits::Lcg;
use crate::evidence::{Report, Tier};
use crate::refdec::{predict, wrap, CmpStats, Mv};
use crate::refhdr::{SHdr, SSize, StdHdr};
use crate::syntax::*;
use crate::util::*;
use h263_rs::H263State;
use rayon::prelude::*;
use serde_json::json;
use std::sync::atomic::{AtomicU64, Ordering};

pub fn shdr(w: u16, h: u16, ptype: u8, tr: u8, q: u8, version: u8) -> Hdr {
    Hdr::S(SHdr { version, tr, size: SSize::auto(w, h), ptype, deblock: false, q, pei: vec![] })
}

/// High-entropy intra picture (content is LCG filler, not a choice of cases).
pub fn noise_intra(hdr: Hdr, seed: u64) -> Pic {
    let (w, h) = hdr.dims().unwrap();
    let (mbw, mbh) = mb_grid(w, h);
    let mut rng = Lcg::new(seed ^ ((w as u64) << 16) ^ h as u64);
    let v1 = hdr.v1();
    let mut mbs = vec![];
    for _ in 0..mbw * mbh {
        let blocks: [Blk; 6] = std::array::from_fn(|_| {
            let mut dc = rng.range(30, 220) as u8;
            if dc == 128 {
                dc = 127;
            }
            let mut b = Blk::dc(dc);
            let n = rng.range(3, 5);
            let mut idx = 1usize;
            for k in 0..n {
                let run = rng.below(4) as usize;
                if idx + run > 63 {
                    break;
                }
                let mut level = rng.range(1, 4) as i16;
                if rng.below(2) == 0 {
                    level = -level;
                }
                b.ev.push(ev_auto(k + 1 == n, run as u8, level, v1));
                idx += run + 1;
            }
            // make sure the last pushed event carries last = 1 in the encoder
            b
        });
        mbs.push(Mb::Coded { kind: Kind::Intra, dquant: 0, mvd: vec![], blocks });
    }
    let mut p = Pic { hdr, mbs };
    fix_last_flags(&mut p);
    p
}

/// `ev_auto` chooses short/escape by (last, run, level); after building a block, re-derive forms
/// so that the final event is encodable as last and the others as not-last.
pub fn fix_last_flags(p: &mut Pic) {
    let v1 = p.hdr.v1();
    for mb in p.mbs.iter_mut() {
        if let Mb::Coded { blocks, .. } = mb {
            for b in blocks.iter_mut() {
                let n = b.ev.len();
                for (i, e) in b.ev.iter_mut().enumerate() {
                    if e.form == Form::Short || matches!(e.form, Form::Esc8 | Form::Esc7 | Form::Esc11) {
                        *e = ev_auto(i + 1 == n, e.run, e.level, v1);
                    }
                }
            }
        }
    }
}

#[derive(Clone, Debug)]
pub enum Spec {
    NotCoded,
    Intra,
    Inter(Mv, bool),       // vector, with quantizer update
    Inter4V([Mv; 4], bool),
}

fn resid_block(i: usize, b: usize, v1: bool) -> Blk {
    // one small residual event per coded block, position depends on (macroblock, block)
    Blk { dc: None, ev: vec![ev_auto(true, ((i * 3 + b * 5) % 20) as u8, if (i + b) % 2 == 0 { 2 } else { -3 }, v1)] }
}

/// Build macroblocks realising the given vectors (differentials derived with the model's predictor).
pub fn mbs_for(specs: &[Spec], mbw: usize, v1: bool, residual: bool) -> Vec<Mb> {
    let mut mvs: Vec<[Mv; 4]> = vec![];
    let mut out = vec![];
    for (i, s) in specs.iter().enumerate() {
        let blocks = |intra: bool| -> [Blk; 6] {
            std::array::from_fn(|b| {
                let mut blk = if residual && (i + b) % 3 != 2 { resid_block(i, b, v1) } else { Blk::empty() };
                if intra {
                    blk.dc = Some(40 + ((i * 6 + b) * 13 % 170) as u8);
                    if blk.dc == Some(128) {
                        blk.dc = Some(126);
                    }
                }
                blk
            })
        };
        match s {
            Spec::NotCoded => {
                mvs.push([(0, 0); 4]);
                out.push(Mb::NotCoded);
            }
            Spec::Intra => {
                mvs.push([(0, 0); 4]);
                out.push(Mb::Coded { kind: Kind::Intra, dquant: 0, mvd: vec![], blocks: blocks(true) });
            }
            Spec::Inter(v, q) => {
                let cur = [(0, 0); 4];
                let p = predict(&mvs, &cur, i, mbw, 0);
                let d = (wrap(v.0 - p.0) as i8, wrap(v.1 - p.1) as i8);
                mvs.push([*v; 4]);
                out.push(Mb::Coded { kind: if *q { Kind::InterQ } else { Kind::Inter }, dquant: if i % 2 == 0 { 1 } else { -1 }, mvd: vec![d], blocks: blocks(false) });
            }
            Spec::Inter4V(vs, q) => {
                let mut cur = [(0, 0); 4];
                let mut ds = vec![];
                for k in 0..4 {
                    let p = predict(&mvs, &cur, i, mbw, k);
                    ds.push((wrap(vs[k].0 - p.0) as i8, wrap(vs[k].1 - p.1) as i8));
                    cur[k] = vs[k];
                }
                mvs.push(*vs);
                out.push(Mb::Coded { kind: if *q { Kind::Inter4VQ } else { Kind::Inter4V }, dquant: if i % 2 == 0 { 2 } else { -2 }, mvd: ds, blocks: blocks(false) });
            }
        }
    }
    out
}

pub struct Runner<'a> {
    pub rep: &'a Report,
    pub prop: &'static str,
    pub samples: AtomicU64,
    pub ties: AtomicU64,
}
impl<'a> Runner<'a> {
    pub fn new(rep: &'a Report, prop: &'static str) -> Self {
        Runner { rep, prop, samples: AtomicU64::new(0), ties: AtomicU64::new(0) }
    }
    /// each case: a reference (intra) picture followed by pictures to check
    pub fn run(&self, label: &str, cases: &[Vec<Pic>]) {
        self.run_opt(label, cases, None)
    }
    /// `may_refuse`: an error kind with which the last picture of a case may be refused
    pub fn run_opt(&self, label: &str, cases: &[Vec<Pic>], may_refuse: Option<&str>) {
        let refused = AtomicU64::new(0);
        cases.par_iter().for_each(|seq| {
            let mut d = Dec::for_hdr(&seq[0].hdr);
            let mut st = CmpStats::default();
            for (i, p) in seq.iter().enumerate() {
                if let Err(f) = d.step(p, self.prop, &mut st) {
                    if let Some(kind) = may_refuse {
                        if i + 1 == seq.len() && f.sig.ends_with(&format!("valid-picture-rejected-{kind}")) {
                            refused.fetch_add(1, Ordering::Relaxed);
                            break;
                        }
                    }
                    self.rep.violation(&f.sig, format!("[{label}] {}", f.what), d.replay(label));
                    break;
                }
            }
            self.samples.fetch_add(st.samples, Ordering::Relaxed);
            self.ties.fetch_add(st.ties, Ordering::Relaxed);
        });
        let n: u64 = cases.iter().map(|c| c.len() as u64).sum();
        self.rep.add_transitions(n);
        self.rep.add_states(cases.len() as u64);
        self.rep.extra_add(&format!("sequences_{label}"), cases.len() as u64);
        if may_refuse.is_some() {
            self.rep.extra_add(&format!("refused_{label}"), refused.load(Ordering::Relaxed));
        }
    }
    /// The cases run as *simultaneous streams*: one decoder per case, all on one new thread, advanced
    /// in turn from one call site (picture k of every stream, then picture k + 1 of every stream).
    /// What one decoder leaves behind for the next one - a memo keyed by something the streams share,
    /// scratch memory - shows as a difference from the reference decoder.
    pub fn run_lockstep(&self, label: &str, cases: &[Vec<Pic>]) {
        let rep = self.rep;
        let prop = self.prop;
        let (samples, ties) = std::thread::scope(|sc| {
            sc.spawn(move || {
                crate::evidence::install_panic_hook();
                let mut decs: Vec<Dec> = cases.iter().map(|c| Dec::for_hdr(&c[0].hdr)).collect();
                let mut dead = vec![false; cases.len()];
                let mut st = CmpStats::default();
                let steps = cases.iter().map(|c| c.len()).max().unwrap_or(0);
                for k in 0..steps {
                    for (ci, c) in cases.iter().enumerate() {
                        if dead[ci] || k >= c.len() {
                            continue;
                        }
                        if let Err(f) = decs[ci].step(&c[k], prop, &mut st) {
                            dead[ci] = true;
                            let before = if ci > 0 { describe(&cases[ci - 1][k.min(cases[ci - 1].len() - 1)]) } else { "nothing".to_string() };
                            let mut rv = decs[ci].replay(label);
                            rv["decoded_just_before_by_another_decoder_on_the_thread"] = json!(before);
                            rep.violation_lazy(&format!("{}[streams-in-lock-step]", f.sig), || (format!("[{label}] stream {ci} of {} decoded in turn on one thread, picture {k} (the decoder before it on the thread handled: {before}): {}", cases.len(), f.what), rv));
                        }
                    }
                }
                (st.samples, st.ties)
            })
            .join()
            .unwrap_or((0, 0))
        });
        self.samples.fetch_add(samples, Ordering::Relaxed);
        self.ties.fetch_add(ties, Ordering::Relaxed);
        let n: u64 = cases.iter().map(|c| c.len() as u64).sum();
        self.rep.add_transitions(n);
        self.rep.add_states(cases.len() as u64);
        self.rep.extra_add(&format!("streams_in_lock_step_{label}"), cases.len() as u64);
    }
    pub fn finish(&self) {
        self.rep.extra("samples_compared", json!(self.samples.load(Ordering::Relaxed)));
        self.rep.extra("samples_accepted_inside_rounding_band", json!(self.ties.load(Ordering::Relaxed)));
    }
}

const VECS: [Mv; 8] = [(3, -5), (-7, 2), (10, 9), (-12, -1), (1, 14), (-4, -9), (6, 6), (-2, 11)];

fn kind_spec(code: usize, i: usize) -> Spec {
    let v = VECS[i % 8];
    let vs = [VECS[(i + 1) % 8], VECS[(i + 3) % 8], VECS[(i + 4) % 8], VECS[(i + 6) % 8]];
    match code {
        0 => Spec::NotCoded,
        1 => Spec::Inter(v, false),
        2 => Spec::Inter(v, true),
        3 => Spec::Inter4V(vs, false),
        4 => Spec::Inter4V(vs, true),
        _ => Spec::Intra,
    }
}

pub fn run_c03(tier: Tier) -> Report {
    let rep = Report::new("C03", "inter", tier);
    let seed = crate::evidence::seed();
    let r = Runner::new(&rep, "C03");

    // ---- S-types: every assignment of 7 macroblock kinds (6 + IntraQ via code 6) to the macroblocks
    let mut cases = vec![];
    // (grids with an odd or short last row/column: every kind lands on a clipped macroblock)
    let mut grids: Vec<(u16, u16)> = vec![(32, 32), (16, 16), (48, 16), (16, 48), (20, 12), (17, 19), (31, 17), (9, 23)];
    if tier.thorough() {
        grids.extend([(48, 32), (17, 33), (33, 31), (47, 1), (1, 35)]);
    }
    for &(w, h) in &grids {
        let (mbw, mbh) = mb_grid(w, h);
        let n = mbw * mbh;
        for version in [0u8, 1] {
            if version == 1 && n >= 4 && (!tier.thorough() || n > 4) {
                continue;
            }
            let reference = noise_intra(shdr(w, h, 0, 0, 6, version), seed);
            for combo in 0..7usize.pow(n as u32) {
                let mut specs = vec![];
                let mut intraq = vec![];
                let mut c = combo;
                for i in 0..n {
                    let code = c % 7;
                    c /= 7;
                    intraq.push(code == 6);
                    specs.push(kind_spec(code, i));
                }
                let mut mbs = mbs_for(&specs, mbw, version == 1, true);
                for (i, m) in mbs.iter_mut().enumerate() {
                    if intraq[i] {
                        if let Mb::Coded { kind, dquant, .. } = m {
                            *kind = Kind::IntraQ;
                            *dquant = 2;
                        }
                    }
                }
                let mut p = Pic { hdr: shdr(w, h, 1, 1, 6, version), mbs };
                fix_last_flags(&mut p);
                cases.push(vec![reference.clone(), p]);
            }
        }
    }
    // standard mode
    {
        let reference = noise_intra(Hdr::Std(StdHdr::custom(32, 32, false, 0, 6)), seed);
        for combo in 0..7usize.pow(4) {
            let mut specs = vec![];
            let mut c = combo;
            for i in 0..4 {
                specs.push(kind_spec((c % 7).min(5), i));
                c /= 7;
            }
            let mut p = Pic { hdr: Hdr::Std(StdHdr::custom(32, 32, true, 1, 6)), mbs: mbs_for(&specs, 2, false, true) };
            fix_last_flags(&mut p);
            cases.push(vec![reference.clone(), p]);
        }
    }
    r.run("mb-types", &cases);
    rep.add_nontrivial(cases.len() as u64);

    // ---- S-edge: single-macroblock pictures of every size class x every differential
    let mut cases = vec![];
    let classes: Vec<(u16, u16)> = if tier.thorough() { vec![(16, 16), (17, 17), (8, 8), (1, 1), (20, 12), (15, 9), (2, 3), (9, 16), (16, 9), (7, 1), (1, 7), (31, 15), (24, 24), (3, 17)] } else { vec![(16, 16), (17, 17), (8, 8), (1, 1), (20, 12)] };
    for &(w, h) in &classes {
        let (mbw, mbh) = mb_grid(w, h);
        let reference = noise_intra(shdr(w, h, 0, 0, 5, 0), seed);
        for dx in -32..=31i8 {
            for dy in -32..=31i8 {
                let mut mbs = vec![Mb::inter((dx, dy))];
                for _ in 1..mbw * mbh {
                    mbs.push(Mb::NotCoded);
                }
                cases.push(vec![reference.clone(), Pic { hdr: shdr(w, h, 1, 1, 5, 0), mbs }]);
            }
        }
    }
    r.run("edge-vectors", &cases);
    rep.add_nontrivial(cases.len() as u64);

    // ---- S-phase: interior macroblock of 48x48, every vector x residual kind
    let mut cases = vec![];
    let reference = noise_intra(shdr(48, 48, 0, 0, 5, 1), seed);
    let targets: Vec<usize> = if tier.thorough() { (0..9).collect() } else { vec![4] };
    for &t in &targets {
        for resid in 0..3usize {
            if t != 4 && resid != 1 && !tier.thorough() {
                continue;
            }
            for dx in -32..=31i8 {
                for dy in -32..=31i8 {
                    let mut mbs = vec![];
                    for i in 0..9 {
                        if i == t {
                            let blocks: [Blk; 6] = std::array::from_fn(|b| match resid {
                                0 => Blk::empty(),
                                1 => Blk { dc: None, ev: vec![ev_auto(true, 0, if b % 2 == 0 { 3 } else { -2 }, true)] },
                                _ => Blk { dc: None, ev: vec![ev_auto(false, 0, 2, true), ev_auto(false, 1, -1, true), ev_auto(false, 3, 1, true), ev_auto(true, 9, -2, true)] },
                            });
                            // predictor is zero: all neighbours are not coded
                            mbs.push(Mb::Coded { kind: Kind::Inter, dquant: 0, mvd: vec![(dx, dy)], blocks });
                        } else {
                            mbs.push(Mb::NotCoded);
                        }
                    }
                    cases.push(vec![reference.clone(), Pic { hdr: shdr(48, 48, 1, 1, 5, 1), mbs }]);
                }
            }
        }
    }
    r.run("phase-vectors", &cases);
    rep.add_nontrivial(cases.len() as u64);

    // ---- S-trunc: truncation after every macroblock and at every byte
    let (mut n_trunc, mut n_bytecut) = (0u64, 0u64);
    let base: Vec<Pic> = (0..24usize)
        .map(|k| {
            let specs: Vec<Spec> = (0..4).map(|i| kind_spec((k * 5 + i * 3 + k / 7) % 6, i + k)).collect();
            let mut p = Pic { hdr: shdr(32, 32, if k % 3 == 2 { 2 } else { 1 }, 1, 7, (k % 2) as u8), mbs: mbs_for(&specs, 2, k % 2 == 1, true) };
            fix_last_flags(&mut p);
            p
        })
        .collect();
    let mut cases = vec![];
    for p in &base {
        let reference = noise_intra(shdr(32, 32, 0, 0, 7, if p.hdr.v1() { 1 } else { 0 }), seed);
        for k in 0..=4usize {
            let mut q = p.clone();
            q.mbs.truncate(k);
            cases.push(vec![reference.clone(), q]);
            n_trunc += 1;
        }
    }
    r.run("truncate-after-macroblock", &cases);
    // byte cuts: Err, or Ok with exactly the complete macroblocks
    base.par_iter().for_each(|p| {
        let reference = noise_intra(shdr(32, 32, 0, 0, 7, if p.hdr.v1() { 1 } else { 0 }), seed);
        let full = encode(p);
        // bit position after the header and after each macroblock
        let mut ends = vec![];
        for k in 0..=4usize {
            let mut q = p.clone();
            q.mbs.truncate(k);
            ends.push(encode(&q).nbits);
        }
        for cut in (ends[0] + 7) / 8..full.bytes.len() {
            let complete = (0..=4).rev().find(|&k| ends[k] <= cut * 8).unwrap();
            let mut q = p.clone();
            q.mbs.truncate(complete);
            let mut d = Dec::for_hdr(&p.hdr);
            let mut st = CmpStats::default();
            let _ = d.step(&reference, "C03", &mut st);
            // model on the truncated tree, implementation on the cut bytes
            let bytes = full.bytes[..cut].to_vec();
            let before = crate::util::last_snap(&d.st);
            d.fed.push(bytes.clone());
            match crate::util::decode_bytes(&mut d.st, &bytes) {
                crate::util::Outcome::Panic(pm) => rep.violation(&crate::evidence::panic_sig(&pm), format!("byte cut {cut}: {pm}"), d.replay("byte-cut")),
                crate::util::Outcome::Err(_) => {
                    if crate::util::last_snap(&d.st) != before {
                        rep.violation("C03/bytecut-err-changed-picture", format!("{}: cut at byte {cut} rejected but last picture changed", describe(p)), d.replay("byte-cut"));
                    }
                    // a following picture with every macroblock not coded must be an exact copy of the
                    // reference - nothing of the rejected picture may survive
                    let skip = Pic { hdr: shdr(32, 32, 1, 9, 7, 0), mbs: vec![Mb::NotCoded; 4] };
                    if let Err(f) = d.step(&skip, "C03", &mut st) {
                        rep.violation(&format!("C03/not-coded-after-rejected-picture[{}]", f.sig.rsplit('/').next().unwrap_or("")), format!("{}: cut at byte {cut} (rejected), then an all-not-coded picture: {}", describe(p), f.what), d.replay("byte-cut then all-not-coded"));
                    }
                    rep.add_transitions(1);
                }
                crate::util::Outcome::Ok => {
                    let m = crate::refdec::decode(&q, d.mref.as_ref()).unwrap();
                    let s = crate::util::last_snap(&d.st).unwrap();
                    if let Some(diff) = crate::refdec::compare((&s.y, &s.cb, &s.cr), &m, &mut st) {
                        rep.violation("C03/bytecut-early-end", format!("{}: cut at byte {cut} ({complete} complete macroblocks): {diff}", describe(p)), d.replay("byte-cut"));
                    }
                }
            }
            rep.add_transitions(1);
        }
    });
    n_bytecut += base.iter().map(|p| encode(p).bytes.len() as u64).sum::<u64>();
    rep.extra("byte_cut_cases_upper_bound", json!(n_bytecut));
    rep.extra("macroblock_truncations", json!(n_trunc));

    // ---- S-noref: prediction without a reference must be an error
    let mut n_noref = 0u64;
    for p in &base {
        for after_reject in [false, true] {
            let mut d = Dec::for_hdr(&p.hdr);
            if after_reject {
                // an intra picture with a forbidden INTRADC is rejected and must not become a reference
                let bad = Pic { hdr: shdr(32, 32, 0, 0, 7, 0), mbs: vec![Mb::intra_flat(60), Mb::Raw(vec![true, false, false, true, true, false, false, false, false, false, false, false, false])] };
                let o = crate::util::decode_bytes(&mut d.st, &encode_bytes(&bad));
                d.fed.push(encode_bytes(&bad));
                if !o.is_err() {
                    rep.violation("C03/noref-setup", format!("rejected-picture setup returned {}", o.short()), d.replay("noref"));
                }
            }
            let bytes = encode_bytes(p);
            d.fed.push(bytes.clone());
            let o = crate::util::decode_bytes(&mut d.st, &bytes);
            n_noref += 1;
            if !o.is_err() {
                rep.violation(
                    &format!("C03/no-reference-{}", if o.is_ok() { "accepted" } else { "panic" }),
                    format!("{} on a decoder without reference picture: {}", describe(p), o.short()),
                    d.replay("no-reference"),
                );
            }
        }
    }
    // the same for pictures that end early: the macroblocks after the end are copies of the reference,
    // so without a reference the picture needs prediction however its transmitted macroblocks are
    // coded - a bare header, and every prefix of all-intra, mixed and all-inter pictures, P and D,
    // both modes, on a fresh decoder and after a rejected key picture
    {
        let mut early: Vec<Pic> = vec![];
        for std in [false, true] {
            for ptype in [1u8, 2] {
                if std && ptype == 2 {
                    continue;
                }
                for content in 0..3usize {
                    let specs: Vec<Spec> = (0..4usize)
                        .map(|i| match content {
                            0 => Spec::Intra,
                            1 => {
                                if i % 2 == 0 {
                                    Spec::Intra
                                } else {
                                    Spec::Inter((1, -1), false)
                                }
                            }
                            _ => Spec::Inter((2, 1), false),
                        })
                        .collect();
                    let hdr = if std { Hdr::Std(StdHdr::custom(32, 32, true, 1, 7)) } else { shdr(32, 32, ptype, 1, 7, (content % 2) as u8) };
                    let v1 = hdr.v1();
                    let mut full = Pic { hdr, mbs: mbs_for(&specs, 2, v1, true) };
                    fix_last_flags(&mut full);
                    for k in 0..4usize {
                        let mut q = full.clone();
                        q.mbs.truncate(k);
                        early.push(q);
                    }
                }
            }
        }
        for p in &early {
            for after_reject in [false, true] {
                let mut d = Dec::for_hdr(&p.hdr);
                if after_reject {
                    let bad_hdr = if matches!(p.hdr, Hdr::Std(_)) { Hdr::Std(StdHdr::custom(32, 32, false, 0, 7)) } else { shdr(32, 32, 0, 0, 7, 0) };
                    let bad = Pic { hdr: bad_hdr, mbs: vec![Mb::intra_flat(60), Mb::Raw(vec![true, false, false, true, true, false, false, false, false, false, false, false, false])] };
                    let _ = crate::util::decode_bytes(&mut d.st, &encode_bytes(&bad));
                    d.fed.push(encode_bytes(&bad));
                }
                let bytes = encode_bytes(p);
                d.fed.push(bytes.clone());
                let o = crate::util::decode_bytes(&mut d.st, &bytes);
                n_noref += 1;
                if !o.is_err() {
                    rep.violation(
                        &format!("C03/no-reference-early-ended-picture-{}", if o.is_ok() { "accepted" } else { "panic" }),
                        format!("{} ({} of 4 macroblocks sent) on a decoder without reference picture: {}", describe(p), p.mbs.len(), o.short()),
                        d.replay("no-reference, early end"),
                    );
                }
            }
        }
    }
    rep.add_transitions(n_noref);
    rep.add_states(n_noref);

    // ---- S-resid: residual clipping on flat references
    let mut cases = vec![];
    for refv in [1u8, 127, 254] {
        let reference = Pic { hdr: shdr(16, 16, 0, 0, 5, 0), mbs: vec![Mb::intra_flat(refv)] };
        for q in [1u8, 8, 31] {
            for lv in [1i16, 4, 20, 33, 127] {
                for s in [1i16, -1] {
                    for pos in [0u8, 1, 8] {
                        let blocks: [Blk; 6] = std::array::from_fn(|_| Blk { dc: None, ev: vec![ev_auto(true, pos, lv * s, false)] });
                        cases.push(vec![reference.clone(), Pic { hdr: shdr(16, 16, 1, 1, q, 0), mbs: vec![Mb::Coded { kind: Kind::Inter, dquant: 0, mvd: vec![(0, 0)], blocks }] }]);
                    }
                }
            }
        }
    }
    r.run("residual-clip", &cases);

    // ---- inter-block coefficient events over the whole zig-zag range (an inter block starts at
    // position 0 and may use position 63): single events, two- and three-event chains
    let mut cases = vec![];
    {
        let reference = Pic { hdr: shdr(16, 16, 0, 0, 4, 0), mbs: vec![Mb::intra_flat(120)] };
        let mut push = |evs: Vec<Ev>, v1: bool| {
            let mut blocks: [Blk; 6] = Default::default();
            blocks[0].ev = evs.clone();
            blocks[5].ev = evs;
            let version = v1 as u8;
            let mut rf = reference.clone();
            if let Hdr::S(h) = &mut rf.hdr {
                h.version = version;
            }
            cases.push(vec![rf, Pic { hdr: shdr(16, 16, 1, 1, 4, version), mbs: vec![Mb::Coded { kind: Kind::Inter, dquant: 0, mvd: vec![(0, 0)], blocks }] }]);
        };
        for run in 0..=63u8 {
            for lv in [2i16, -3] {
                push(vec![ev_auto(true, run, lv, false)], false);
                push(vec![ev_auto(true, run, lv, true)], true);
            }
        }
        let step = if tier.thorough() { 1 } else { 4 };
        for r1 in 0..=62usize {
            for r2 in 0..=62usize {
                if r1 + r2 + 2 > 64 {
                    continue;
                }
                // always keep the chains that end on the last two positions
                let ends_late = r1 + r2 + 2 >= 63;
                if !ends_late && (r1 % step != 0 || r2 % step != 0) {
                    continue;
                }
                push(vec![ev_auto(false, r1 as u8, 3, false), ev_auto(true, r2 as u8, -2, false)], false);
            }
        }
        for p1 in [0usize, 1, 30, 60, 61] {
            for p2 in [p1 + 1, 61, 62] {
                if p2 <= p1 || p2 >= 63 {
                    continue;
                }
                push(vec![ev_auto(false, p1 as u8, 2, true), ev_auto(false, (p2 - p1 - 1) as u8, -1, true), ev_auto(true, (63 - p2 - 1) as u8, 4, true)], true);
            }
        }
    }
    // every number of events 1..64 in one inter block (all of run 0, so n events fill n positions),
    // in predicted and in disposable pictures, short and escape-coded last event
    for n in 1..=64usize {
        for ptype in [1u8, 2] {
            for version in [0u8, 1] {
                for esc_last in [false, true] {
                    let v1 = version == 1;
                    let mut evs: Vec<Ev> = (0..n - 1).map(|k| ev_auto(false, 0, if k % 3 == 0 { 2 } else { -1 }, v1)).collect();
                    evs.push(if esc_last { Ev { run: 0, level: 37, form: esc_form(v1, 37) } } else { ev_auto(true, 0, 1, v1) });
                    let mut blocks: [Blk; 6] = Default::default();
                    blocks[1].ev = evs.clone();
                    blocks[5].ev = evs;
                    let reference = Pic { hdr: shdr(16, 16, 0, 0, 4, version), mbs: vec![Mb::intra_flat(120)] };
                    cases.push(vec![reference, Pic { hdr: shdr(16, 16, ptype, 1, 4, version), mbs: vec![Mb::Coded { kind: Kind::Inter, dquant: 0, mvd: vec![(0, 0)], blocks }] }]);
                }
            }
        }
    }
    r.run("inter-block-events", &cases);
    rep.add_nontrivial(cases.len() as u64);

    // ---- large pictures: more than 255 macroblocks, more than 255 macroblocks per row
    let mut cases = vec![];
    // (macroblock counts beyond 2^12 need two large dimensions at once; thorough goes past 2^16)
    let mut big: Vec<(u16, u16)> = vec![(352, 288), (4112, 16), (1024, 1040)];
    if tier.thorough() {
        big.extend([(16, 4112), (704, 576), (4096, 4096)]);
    }
    for &(w, h) in &big {
        let (mbw, mbh) = mb_grid(w, h);
        let reference = noise_intra(shdr(w, h, 0, 0, 6, 0), seed);
        let specs: Vec<Spec> = (0..mbw * mbh)
            .map(|i| match i % 11 {
                0 | 5 => Spec::NotCoded,
                3 => Spec::Intra,
                7 => Spec::Inter4V([VECS[i % 8], VECS[(i + 3) % 8], VECS[(i + 5) % 8], VECS[(i + 6) % 8]], i % 2 == 0),
                _ => Spec::Inter(VECS[(i / 3) % 8], i % 4 == 1),
            })
            .collect();
        let mut p = Pic { hdr: shdr(w, h, 1, 1, 6, 0), mbs: mbs_for(&specs, mbw, false, true) };
        fix_last_flags(&mut p);
        let mut p2 = p.clone();
        p2.mbs.truncate(mbw * mbh - mbw / 2 - 1); // early end: the tail must be copied from the reference
        if let Hdr::S(h2) = &mut p2.hdr {
            h2.tr = 2;
        }
        cases.push(vec![reference, p, p2]);
    }
    r.run("large-pictures", &cases);

    // ---- the same picture size signalled in different ways by the reference and the predicted
    // picture (size code, 8-bit and 16-bit explicit size; source format in PTYPE or OPPTYPE, custom
    // format with each pixel aspect ratio): all ordered pairs of forms, P and D
    let mut cases = vec![];
    let mut lenient = vec![];
    {
        let mixed = |n: usize| -> Vec<Spec> { (0..n).map(|i| match i % 7 { 0 | 4 => Spec::NotCoded, 2 => Spec::Intra, 5 => Spec::Inter4V([VECS[i % 8], VECS[(i + 1) % 8], VECS[(i + 2) % 8], VECS[(i + 5) % 8]], false), _ => Spec::Inter(VECS[(i / 2) % 8], i % 3 == 0) }).collect() };
        for code in 2..=6u8 {
            let (w, h) = SSize::Code(code).dims().unwrap();
            if (w, h) == (352, 288) && !tier.thorough() {
                continue;
            }
            let mut forms = vec![SSize::Code(code), SSize::Custom16(w, h)];
            if w < 256 && h < 256 {
                forms.push(SSize::Custom8(w as u8, h as u8));
            }
            let (mbw, mbh) = mb_grid(w, h);
            for fa in &forms {
                for fb in &forms {
                    for pt in [1u8, 2] {
                        let mut reference = noise_intra(shdr(w, h, 0, 0, 6, 0), seed);
                        if let Hdr::S(hh) = &mut reference.hdr {
                            hh.size = fa.clone();
                        }
                        let mut p = Pic { hdr: Hdr::S(SHdr { version: 0, tr: 1, size: fb.clone(), ptype: pt, deblock: false, q: 6, pei: vec![] }), mbs: mbs_for(&mixed(mbw * mbh), mbw, false, true) };
                        fix_last_flags(&mut p);
                        cases.push(vec![reference, p]);
                    }
                }
            }
        }
        // standard mode: format codes 1..3 (thorough: 4) in PTYPE, in OPPTYPE, or as a custom format
        for fmt in 1..=(if tier.thorough() { 4u8 } else { 2 }) {
            let (w, h) = [(128u16, 96u16), (176, 144), (352, 288), (704, 576)][fmt as usize - 1];
            let (mbw, mbh) = mb_grid(w, h);
            let mut forms: Vec<StdHdr> = vec![StdHdr::baseline(fmt, false, 0, 6)];
            let mut opp = StdHdr::custom(w, h, false, 0, 6);
            opp.plus.as_mut().unwrap().opp.srcfmt = fmt;
            forms.push(opp);
            for par in 1..=5u8 {
                let mut c = StdHdr::custom(w, h, false, 0, 6);
                c.plus.as_mut().unwrap().cpfmt.par = par;
                forms.push(c);
            }
            let mut e = StdHdr::custom(w, h, false, 0, 6);
            e.plus.as_mut().unwrap().cpfmt.par = 15;
            e.plus.as_mut().unwrap().cpfmt.epar = (12, 11);
            forms.push(e);
            for (ia, fa) in forms.iter().enumerate() {
                for (ib, fb) in forms.iter().enumerate() {
                    // The header parser documents picture-format changes in standard mode as
                    // unimplemented and takes any difference between the two headers' format
                    // fields for one (aspect ratio included), so only pairs that name the same
                    // format value must decode; the others may be refused as unimplemented, and if
                    // they are accepted they must be exact.
                    let same_value = ia == ib || (ia < 2 && ib < 2);
                    let mut reference = noise_intra(Hdr::Std(fa.clone()), seed);
                    reference.hdr = Hdr::Std(fa.clone());
                    let mut hb = fb.clone();
                    hb.inter = true;
                    hb.tr = 1;
                    if let Some(pl) = hb.plus.as_mut() {
                        pl.mpp_type = 1;
                    }
                    let mut p = Pic { hdr: Hdr::Std(hb), mbs: mbs_for(&mixed(mbw * mbh), mbw, false, true) };
                    fix_last_flags(&mut p);
                    if same_value {
                        cases.push(vec![reference, p]);
                    } else {
                        lenient.push(vec![reference, p]);
                    }
                }
            }
        }
    }
    r.run("same-size-other-form", &cases);
    rep.add_nontrivial(cases.len() as u64);
    r.run_opt("same-size-other-format-value-standard-mode", &lenient, Some("UnimplementedDecoding"));
    rep.assume("standard mode: a predicted picture whose header names another picture-format value than the previous header (even for the same size) may be refused with UnimplementedDecoding (picture-format changes are documented as unimplemented in the header parser); when accepted it must be exact");

    // ---- size histories (Sorenson): every ordered pair (A, B) of sizes that collide in one derived
    // quantity and differ in another; pictures of size A, an I picture of size B, then predicted and
    // disposable pictures of size B
    let mut cases = vec![];
    let sizes = super::crash::colliding_sizes(false);
    let pic_of = |w: u16, h: u16, ptype: u8, tr: u8, salt: usize| -> Pic {
        let (mbw, mbh) = mb_grid(w, h);
        let specs: Vec<Spec> = (0..mbw * mbh)
            .map(|i| match (i + salt) % 5 {
                0 => Spec::NotCoded,
                3 => Spec::Inter4V([VECS[(i + salt) % 8], VECS[(i + 3) % 8], VECS[(i + 5) % 8], VECS[(i + 6) % 8]], i % 2 == 0),
                _ => Spec::Inter(VECS[(i + 2 * salt) % 8], i % 4 == 1),
            })
            .collect();
        let mut p = Pic { hdr: shdr(w, h, ptype, tr, 6, 0), mbs: mbs_for(&specs, mbw, false, true) };
        fix_last_flags(&mut p);
        p
    };
    for &(wa, ha) in &sizes {
        for &(wb, hb) in &sizes {
            let ia = noise_intra(shdr(wa, ha, 0, 0, 6, 0), seed ^ 0x71);
            let ib = noise_intra(shdr(wb, hb, 0, 2, 6, 0), seed ^ 0x72);
            cases.push(vec![ia.clone(), ib.clone(), pic_of(wb, hb, 1, 3, 0)]);
            cases.push(vec![ia.clone(), pic_of(wa, ha, 1, 1, 1), ib.clone(), pic_of(wb, hb, 2, 3, 2), pic_of(wb, hb, 1, 4, 3)]);
            cases.push(vec![ia, pic_of(wa, ha, 2, 1, 4), ib, pic_of(wb, hb, 1, 3, 0)]);
        }
    }
    r.run("size-histories", &cases);
    rep.add_nontrivial(cases.len() as u64);
    // ---- the same kind of streams side by side: every 23rd size history plus standard-mode streams,
    // one decoder each, advanced in turn on one thread
    {
        let mut mixed: Vec<Vec<Pic>> = cases.iter().step_by(23).cloned().collect();
        let reference = noise_intra(Hdr::Std(StdHdr::custom(32, 32, false, 0, 6)), seed);
        for k in 0..6usize {
            let specs: Vec<Spec> = (0..4).map(|i| kind_spec((k + i * 2) % 6, i + k)).collect();
            let mut p = Pic { hdr: Hdr::Std(StdHdr::custom(32, 32, true, 1, 6)), mbs: mbs_for(&specs, 2, false, true) };
            fix_last_flags(&mut p);
            let mut q = p.clone();
            q.mbs.truncate(2);
            if let Hdr::Std(h) = &mut q.hdr {
                h.tr = 2;
            }
            mixed.push(vec![reference.clone(), p, q]);
        }
        r.run_lockstep("streams-side-by-side", &mixed);
        rep.add_nontrivial(mixed.len() as u64);
    }
    // ---- mixed header histories in standard mode (all sub-QCIF, so the format value never changes):
    // predicted pictures with assorted macroblock kinds and vectors that wrap, after a reference of
    // another header kind - plain PTYPE after PLUSPTYPE with and without unrestricted vectors,
    // PLUSPTYPE after plain PTYPE - and chains of three
    {
        let sq_plus = |inter: bool, tr: u8, umv: bool| -> Hdr {
            let mut h = StdHdr::custom(128, 96, inter, tr, 6);
            let pl = h.plus.as_mut().unwrap();
            pl.opp.srcfmt = 1;
            if umv {
                pl.opp.modes |= 0x200;
                pl.uui = 1;
            }
            Hdr::Std(h)
        };
        let plain = |inter: bool, tr: u8| Hdr::Std(StdHdr::baseline(1, inter, tr, 6));
        let p_of = |hdr: Hdr, salt: usize| -> Pic {
            let specs: Vec<Spec> = (0..48usize)
                .map(|i| match (i + salt) % 7 {
                    0 => Spec::NotCoded,
                    1 => Spec::Intra,
                    2 => Spec::Inter4V([VECS[i % 8], VECS[(i + 3) % 8], VECS[(i + 5) % 8], VECS[(i + 6) % 8]], false),
                    3 => Spec::Inter((-30, 29), false),
                    _ => Spec::Inter(VECS[(i + salt) % 8], i % 4 == 1),
                })
                .collect();
            let mut p = Pic { hdr, mbs: mbs_for(&specs, 8, false, true) };
            fix_last_flags(&mut p);
            p
        };
        let mut cases = vec![];
        for k in 0..6usize {
            for umv in [true, false] {
                cases.push(vec![noise_intra(sq_plus(false, 0, umv), seed ^ 0xA1), p_of(plain(true, 1), k)]);
                cases.push(vec![noise_intra(sq_plus(false, 0, umv), seed ^ 0xA2), p_of(plain(true, 1), k), p_of(plain(true, 2), k + 1)]);
            }
            cases.push(vec![noise_intra(plain(false, 0), seed ^ 0xA3), p_of(sq_plus(true, 1, false), k), p_of(plain(true, 2), k + 2)]);
        }
        r.run("mixed-header-histories", &cases);
        rep.add_nontrivial(cases.len() as u64);
    }
    // delivery in two pieces: a predicted / disposable picture (vectors, not-coded macroblocks) whose
    // bytes arrive in two parts through one reader after its reference was decoded - the call that
    // runs dry is repeated after the rest has been appended and must give the picture of one-piece
    // delivery, at every byte position, in the three stream kinds
    {
        let mut work: Vec<(u8, Hdr, Hdr)> = vec![];
        for &(w, h) in &[(16u16, 16u16), (32, 16), (33, 17)] {
            for version in 0..2u8 {
                for pt in [1u8, 2] {
                    let mk = |ptype: u8, tr: u8| Hdr::S(SHdr { version, tr, size: SSize::auto(w, h), ptype, deblock: false, q: 6, pei: vec![] });
                    work.push((1, mk(0, 1), mk(pt, 2)));
                }
            }
            if w % 4 == 0 && h % 4 == 0 {
                work.push((0, Hdr::Std(StdHdr::custom(w, h, false, 1, 6)), Hdr::Std(StdHdr::custom(w, h, true, 2, 6))));
            }
        }
        let n_two = AtomicU64::new(0);
        work.par_iter().for_each(|(opts, ih, ph)| {
            let ipic = noise_intra(ih.clone(), seed ^ 0x2B);
            let (mbw, mbh) = mb_grid(ph.dims().unwrap().0, ph.dims().unwrap().1);
            let mbs: Vec<Mb> = (0..mbw * mbh).map(|i| if i % 3 == 2 { Mb::NotCoded } else { Mb::inter(((i % 5) as i8 - 2, (i % 3) as i8 - 1)) }).collect();
            let ppic = Pic { hdr: ph.clone(), mbs };
            let (bi, bp) = (encode_bytes(&ipic), encode_bytes(&ppic));
            let mut st = H263State::new(options_from_bits(*opts));
            if !decode_bytes(&mut st, &bi).is_ok() || !decode_bytes(&mut st, &bp).is_ok() {
                rep.violation("C03/machinery-two-piece-base-picture", format!("{} does not decode in one piece", describe(&ppic)), json!({"kind": "machinery"}));
                return;
            }
            let expect = [last_snap(&st)];
            for split in 1..bp.len() {
                n_two.fetch_add(1, Ordering::Relaxed);
                if let Err(e) = deliver_in_two(*opts, &[&bi], &bp, split, &expect) {
                    rep.violation("C03/delivery-in-two-pieces", format!("{}: {e}", describe(&ppic).chars().take(80).collect::<String>()), json!({"kind": "stream-two-pieces", "options": opts, "init": [crate::bits::hex(&bi)], "concatenated": crate::bits::hex(&bp), "pictures": 1, "split": split, "error": e}));
                    break;
                }
            }
        });
        let n = n_two.load(Ordering::Relaxed);
        rep.add_transitions(n);
        rep.add_states(n);
        rep.extra("two_piece_deliveries", json!(n));
    }

    r.finish();
    rep.set_rule(
        "P/D pictures as syntax trees over LCG-noise reference pictures, decoded by H263State and by the reference decoder (median prediction, wrap, chroma vector, bilinear half-sample, edge clamp, residual add/clip): all 7^n macroblock-kind assignments on 5 grids; every differential (64x64) on single-macroblock pictures of each size class and on the interior macroblock of 48x48 x 3 residual kinds; truncation after every macroblock and at every byte; no-reference rejection (complete pictures, and every early-ended prefix of all-intra / mixed / all-inter pictures incl. the bare header); residual clipping; every ordered pair of ways to signal one picture size between the reference and the predicted picture; every ordered pair of 17 colliding sizes as histories I(A)[,P(A)|D(A)],I(B),[D(B),]P(B); some forty of these streams and six standard-mode streams decoded in turn by their own decoders on one thread; thirty standard-mode histories mixing PLUSPTYPE (with / without unrestricted vectors) and plain-PTYPE pictures; \
         non-trivial = sequence whose predicted picture has a non-zero vector or a residual",
    );
    rep.sample(json!({"sweep": "mb-types", "picture": "32x32 [Inter4VQ, NotCoded, IntraQ, Inter] over a noise reference"}));
    rep.sample(json!({"sweep": "edge-vectors", "picture": "1x1 picture, MVD (-32, 31)"}));
    rep.sample(json!({"sweep": "byte-cut", "picture": "32x32 D picture cut in the third macroblock's CBPY"}));
    rep.assume("reference picture content is LCG noise (VERIF_SEED perturbs it); a wrong vector is visible unless two displaced blocks coincide");
    rep
}

pub fn run_c12(tier: Tier) -> Report {
    let rep = Report::new("C12", "inter", tier);
    let seed = crate::evidence::seed();
    let r = Runner::new(&rep, "C12");

    // ---- Pairs: predictor p (from the left neighbour) x differential d, per component and jointly
    let mut cases = vec![];
    let ref2 = noise_intra(shdr(32, 16, 0, 0, 5, 0), seed);
    let ref9 = noise_intra(shdr(48, 48, 0, 0, 5, 0), seed);
    let ref2_v1 = noise_intra(shdr(32, 16, 0, 0, 5, 1), seed);
    let ref2_plus = noise_intra(Hdr::Std(StdHdr::custom(32, 16, false, 0, 5)), seed);
    let ref_base = noise_intra(Hdr::Std(StdHdr::baseline(1, false, 0, 5)), seed);
    // sub-QCIF signalled in PLUSPTYPE (source format 1 in OPPTYPE), with or without unrestricted vectors
    let sq_plus = |inter: bool, tr: u8, umv: bool| -> Hdr {
        let mut h = StdHdr::custom(128, 96, inter, tr, 5);
        let pl = h.plus.as_mut().unwrap();
        pl.opp.srcfmt = 1;
        if umv {
            pl.opp.modes |= 0x200;
            pl.uui = 1;
        }
        Hdr::Std(h)
    };
    let ref_sq_umv = noise_intra(sq_plus(false, 0, true), seed);
    let ref_sq_plus = noise_intra(sq_plus(false, 0, false), seed);
    for p in -32..=31i32 {
        for d in -32..=31i8 {
            for comp in 0..3usize {
                let pv: Mv = match comp {
                    0 => (p, 0),
                    1 => (0, p),
                    _ => (p, p),
                };
                let dv: (i8, i8) = match comp {
                    0 => (d, 0),
                    1 => (0, d),
                    _ => (d, d),
                };
                // two macroblocks: first carries p (predictor 0), second has predictor p
                let mbs = vec![Mb::inter((pv.0 as i8, pv.1 as i8)), Mb::inter(dv)];
                cases.push(vec![ref2.clone(), Pic { hdr: shdr(32, 16, 1, 1, 5, 0), mbs: mbs.clone() }]);
                // the same under the other header kinds that select the base range: Sorenson version 1,
                // H.263 with PLUSPTYPE and no optional mode, H.263 with a plain PTYPE (sub-QCIF)
                cases.push(vec![ref2_v1.clone(), Pic { hdr: shdr(32, 16, 1, 1, 5, 1), mbs: mbs.clone() }]);
                cases.push(vec![ref2_plus.clone(), Pic { hdr: Hdr::Std(StdHdr::custom(32, 16, true, 1, 5)), mbs: mbs.clone() }]);
                if comp == 2 || tier.thorough() {
                    let mut m = mbs.clone();
                    m.extend((2..48).map(|_| Mb::NotCoded));
                    cases.push(vec![ref_base.clone(), Pic { hdr: Hdr::Std(StdHdr::baseline(1, true, 1, 5)), mbs: m.clone() }]);
                    // mixed header histories on one decoder (all sub-QCIF, so the format value does not
                    // change): the mode of the *previous* picture must not decide how this one's vectors are
                    // read - after a PLUSPTYPE picture with unrestricted vectors switched on, after a
                    // PLUSPTYPE picture without, and a PLUSPTYPE picture after a plain one
                    cases.push(vec![ref_sq_umv.clone(), Pic { hdr: Hdr::Std(StdHdr::baseline(1, true, 1, 5)), mbs: m.clone() }]);
                    cases.push(vec![ref_sq_plus.clone(), Pic { hdr: Hdr::Std(StdHdr::baseline(1, true, 1, 5)), mbs: m.clone() }]);
                    cases.push(vec![ref_base.clone(), Pic { hdr: sq_plus(true, 1, false), mbs: m }]);
                }
                if comp < 2 || tier.thorough() {
                    // 3x3 grid: all of row 0 and macroblock 3 carry p, centre macroblock codes d
                    let mut mbs = vec![Mb::inter((pv.0 as i8, pv.1 as i8)), Mb::inter((0, 0)), Mb::inter((0, 0)), Mb::inter((0, 0)), Mb::inter(dv)];
                    mbs.extend([Mb::NotCoded, Mb::NotCoded, Mb::NotCoded, Mb::NotCoded]);
                    cases.push(vec![ref9.clone(), Pic { hdr: shdr(48, 48, 1, 1, 5, 0), mbs }]);
                }
            }
        }
    }
    if tier.thorough() {
        // the same pairs in standard mode and in Sorenson v1, with a four-vector target, and with the
        // predictor supplied by a four-vector neighbour
        let ref2s = noise_intra(Hdr::Std(StdHdr::custom(32, 16, false, 0, 5)), seed);
        let ref2v = noise_intra(shdr(32, 16, 0, 0, 5, 1), seed);
        for p in -32..=31i32 {
            for d in -32..=31i8 {
                for comp in 0..2usize {
                    let pv: (i8, i8) = if comp == 0 { (p as i8, 0) } else { (0, p as i8) };
                    let dv: (i8, i8) = if comp == 0 { (d, 0) } else { (0, d) };
                    cases.push(vec![ref2s.clone(), Pic { hdr: Hdr::Std(StdHdr::custom(32, 16, true, 1, 5)), mbs: vec![Mb::inter(pv), Mb::inter(dv)] }]);
                    let four = |first: (i8, i8)| Mb::Coded { kind: Kind::Inter4V, dquant: 0, mvd: vec![first, (0, 0), (0, 0), (0, 0)], blocks: Default::default() };
                    // four-vector target: block 0 codes d, the other blocks code zero differentials
                    cases.push(vec![ref2v.clone(), Pic { hdr: shdr(32, 16, 1, 1, 5, 1), mbs: vec![Mb::inter(pv), four(dv)] }]);
                    // four-vector neighbour: all four of its vectors end up equal to p
                    cases.push(vec![ref2v.clone(), Pic { hdr: shdr(32, 16, 1, 1, 5, 1), mbs: vec![four(pv), Mb::inter(dv)] }]);
                }
            }
        }
    }
    r.run("predictor-differential-pairs", &cases);
    rep.add_nontrivial(cases.len() as u64);

    // ---- Chroma: every sum of four luma vectors, three decompositions, x and y
    let mut cases = vec![];
    let ref1 = noise_intra(shdr(16, 16, 0, 0, 5, 1), seed);
    let ref4 = noise_intra(shdr(32, 32, 0, 0, 5, 1), seed);
    for sum in -128..=124i32 {
        for dec in 0..3usize {
            // decompositions: balanced, skewed, alternating
            let parts: [i32; 4] = match dec {
                0 => {
                    let b = sum.div_euclid(4);
                    let r = sum.rem_euclid(4);
                    [b + (r > 0) as i32, b + (r > 1) as i32, b + (r > 2) as i32, b]
                }
                1 => {
                    let a = sum.clamp(-32, 31);
                    let b = (sum - a).clamp(-32, 31);
                    let c = (sum - a - b).clamp(-32, 31);
                    [a, b, c, sum - a - b - c]
                }
                _ => {
                    let a = (sum / 2 + 13).clamp(-32, 31);
                    let b = (sum / 2 - 13).clamp(-32, 31);
                    let rest = sum - a - b;
                    let c = rest.div_euclid(2).clamp(-32, 31);
                    [a, c, b, rest - c]
                }
            };
            if parts.iter().any(|v| !(-32..=31).contains(v)) || parts.iter().sum::<i32>() != sum {
                continue;
            }
            for comp in 0..2 {
                let vs: [Mv; 4] = std::array::from_fn(|k| if comp == 0 { (parts[k], (k as i32) - 2) } else { ((k as i32) * 2 - 3, parts[k]) });
                let mut p = Pic { hdr: shdr(16, 16, 1, 1, 5, 1), mbs: mbs_for(&[Spec::Inter4V(vs, false)], 1, true, false) };
                fix_last_flags(&mut p);
                cases.push(vec![ref1.clone(), p]);
                // the same in the last macroblock of a 2x2 grid (interior-ish chroma position)
                let mut p = Pic { hdr: shdr(32, 32, 1, 1, 5, 1), mbs: mbs_for(&[Spec::NotCoded, Spec::NotCoded, Spec::NotCoded, Spec::Inter4V(vs, false)], 2, true, false) };
                fix_last_flags(&mut p);
                cases.push(vec![ref4.clone(), p]);
            }
        }
    }
    r.run("chroma-vector-sums", &cases);
    rep.add_nontrivial(cases.len() as u64);

    // ---- Neighbourhoods
    let mut cases = vec![];
    let grids: Vec<(usize, usize)> = vec![(1, 1), (2, 1), (1, 2), (3, 1), (1, 3), (2, 2), (3, 2), (3, 3), (4, 2)];
    for &(gw, gh) in &grids {
        let (w, h) = ((gw * 16) as u16, (gh * 16) as u16);
        let reference = noise_intra(shdr(w, h, 0, 0, 5, 0), seed);
        for t in 0..gw * gh {
            let (tx, ty) = (t % gw, t / gw);
            // existing neighbours of the target: left, above, above-right (indices)
            let mut nb = vec![];
            if tx > 0 {
                nb.push(t - 1);
            }
            if ty > 0 {
                nb.push(t - gw);
                if tx + 1 < gw {
                    nb.push(t - gw + 1);
                }
            }
            for combo in 0..4usize.pow(nb.len() as u32) {
                for target4v in [false, true] {
                    let mut specs: Vec<Spec> = (0..gw * gh).map(|_| Spec::NotCoded).collect();
                    let mut c = combo;
                    for (j, &n) in nb.iter().enumerate() {
                        specs[n] = match c % 4 {
                            0 => Spec::Inter(VECS[(j * 3 + 1) % 8], false),
                            1 => Spec::Inter4V([VECS[j % 8], VECS[(j + 2) % 8], VECS[(j + 5) % 8], VECS[(j + 7) % 8]], false),
                            2 => Spec::Intra,
                            _ => Spec::NotCoded,
                        };
                        c /= 4;
                    }
                    // macroblocks after the target stay not-coded; the target codes fixed differentials
                    let mut mbs = mbs_for(&specs[..t], gw, false, false);
                    mbs.push(if target4v {
                        Mb::Coded { kind: Kind::Inter4V, dquant: 0, mvd: vec![(2, -3), (-1, 4), (5, 1), (-6, -2)], blocks: Default::default() }
                    } else {
                        Mb::Coded { kind: Kind::Inter, dquant: 0, mvd: vec![(3, -2)], blocks: Default::default() }
                    });
                    for _ in t + 1..gw * gh {
                        mbs.push(Mb::NotCoded);
                    }
                    let mut p = Pic { hdr: shdr(w, h, 1, 1, 5, 0), mbs };
                    fix_last_flags(&mut p);
                    cases.push(vec![reference.clone(), p]);
                }
            }
        }
    }
    r.run("neighbourhoods", &cases);
    rep.add_nontrivial(cases.len() as u64);

    // ---- every Table 14 codeword, both components (table agreement through the decoder)
    let mut cases = vec![];
    for v in -32..=31i8 {
        cases.push(vec![ref1.clone(), Pic { hdr: shdr(16, 16, 1, 1, 5, 1), mbs: vec![Mb::inter((v, 0))] }]);
        cases.push(vec![ref1.clone(), Pic { hdr: shdr(16, 16, 1, 1, 5, 1), mbs: vec![Mb::inter((0, v))] }]);
    }
    r.run("mvd-table", &cases);

    // ---- zero-valued vectors inside four-vector neighbours: a zero vector must not be mistaken for
    // "no vector" (an unavailable, intra or not-coded candidate). Every assignment of {0, a, b} to the
    // four vectors of one neighbour, and of {0, a} to the vectors of two neighbours, for every
    // target position of a 3x2 grid; the other macroblocks are zero-vector INTER or not coded.
    let mut cases = vec![];
    {
        let (gw, gh) = (3usize, 2usize);
        let reference = noise_intra(shdr(48, 32, 0, 0, 5, 0), seed);
        let vals: [Mv; 3] = [(0, 0), (16, 0), (-6, 9)];
        for t in 0..gw * gh {
            let (tx, ty) = (t % gw, t / gw);
            let mut nb = vec![];
            if tx > 0 {
                nb.push(t - 1);
            }
            if ty > 0 {
                nb.push(t - gw);
                if tx + 1 < gw {
                    nb.push(t - gw + 1);
                }
            }
            for rest in 0..2usize {
                let base: Vec<Spec> = (0..gw * gh).map(|i| if i > t || (rest == 1 && i % 2 == 0) { Spec::NotCoded } else { Spec::Inter((0, 0), false) }).collect();
                for target4v in [false, true] {
                    let target = if target4v { Spec::Inter4V([(3, -5), (0, 0), (-7, 2), (0, 0)], false) } else { Spec::Inter((3, -5), false) };
                    let mut emit = |specs: Vec<Spec>| {
                        let mut p = Pic { hdr: shdr(48, 32, 1, 1, 5, 0), mbs: mbs_for(&specs, gw, false, false) };
                        fix_last_flags(&mut p);
                        cases.push(vec![reference.clone(), p]);
                    };
                    for &n in &nb {
                        for code in 0..81usize {
                            let vs: [Mv; 4] = std::array::from_fn(|k| vals[code / 3usize.pow(k as u32) % 3]);
                            let mut specs = base.clone();
                            specs[n] = Spec::Inter4V(vs, false);
                            specs[t] = target.clone();
                            emit(specs);
                        }
                    }
                    for a in 0..nb.len() {
                        for b in a + 1..nb.len() {
                            for code in 0..256usize {
                                let va: [Mv; 4] = std::array::from_fn(|k| vals[code >> k & 1]);
                                let vb: [Mv; 4] = std::array::from_fn(|k| vals[(code >> (4 + k) & 1) * 2]);
                                let mut specs = base.clone();
                                specs[nb[a]] = Spec::Inter4V(va, false);
                                specs[nb[b]] = Spec::Inter4V(vb, false);
                                specs[t] = target.clone();
                                emit(specs);
                            }
                        }
                    }
                    if nb.is_empty() {
                        let mut specs = base.clone();
                        specs[t] = target.clone();
                        emit(specs);
                    }
                }
            }
        }
    }
    r.run("zero-vectors-in-four-vector-neighbours", &cases);
    rep.add_nontrivial(cases.len() as u64);

    // ---- Annex D with PLUSPTYPE (UUI = 1): Table D.3 differentials, vector = predictor +
    // differential, legal range by picture width (Table D.1) and height (Table D.2). Every legal
    // vector value (quick: the neighbourhood of every class limit and every seventh value) at
    // widths / heights on both sides of every class boundary; thorough: the range limits at every
    // multiple of four. Vectors are reached by chaining differentials along the first row.
    let mut cases = vec![];
    {
        let umv_hdr = |w: u16, h: u16, inter: bool, tr: u8| -> Hdr {
            let mut s = StdHdr::custom(w, h, inter, tr, 5);
            let p = s.plus.as_mut().unwrap();
            p.opp.modes |= 0x200;
            p.uui = 1;
            Hdr::Std(s)
        };
        let chain = |v: i32| -> Vec<i8> {
            let mut left = v;
            let mut out = vec![];
            while left != 0 {
                let d = left.clamp(-127, 127);
                out.push(d as i8);
                left -= d;
            }
            if out.is_empty() {
                out.push(0);
            }
            out
        };
        let values = |r: i32, all: bool| -> Vec<i32> {
            let mut vs: Vec<i32> = (-r..r).filter(|v| all || v.rem_euclid(7) == 3).collect();
            for c in [-r, -r / 2, -256, -128, -64, -32, 0, 32, 64, 128, 256, r / 2, r - 1] {
                vs.extend((c - 2..=c + 2).filter(|v| (-r..r).contains(v)));
            }
            vs.sort();
            vs.dedup();
            vs
        };
        let add = |w: u16, h: u16, is_x: bool, vs: &[i32], cases: &mut Vec<Vec<Pic>>| {
            let (mbw, mbh) = mb_grid(w, h);
            let reference = noise_intra(umv_hdr(w, h, false, 0), seed);
            for &v in vs {
                let ds = chain(v);
                if ds.len() > mbw {
                    continue;
                }
                let mut mbs: Vec<Mb> = ds.iter().map(|&d| Mb::inter(if is_x { (d, 0) } else { (1, d) })).collect();
                mbs.resize(mbw * mbh, Mb::NotCoded);
                cases.push(vec![reference.clone(), Pic { hdr: umv_hdr(w, h, true, 1), mbs }]);
            }
        };
        let widths: Vec<u16> = vec![16, 352, 356, 704, 708, 768, 1024, 1408, 1412, 1760, 1764, 2048];
        let heights: Vec<u16> = vec![16, 288, 292, 576, 580, 592, 720, 864, 1152];
        for &w in &widths {
            let r = crate::refdec::umv_limit(w as usize, true);
            add(w, 16, true, &values(r, tier.thorough()), &mut cases);
        }
        for &h in &heights {
            let r = crate::refdec::umv_limit(h as usize, false);
            add(64, h, false, &values(r, tier.thorough()), &mut cases);
        }
        if tier.thorough() {
            for w in (4..=2048u16).step_by(4) {
                let r = crate::refdec::umv_limit(w as usize, true);
                add(w, 16, true, &[-r, -r + 1, -r / 2 - 1, r / 2, r - 2, r - 1], &mut cases);
            }
            for h in (4..=1152u16).step_by(4) {
                let r = crate::refdec::umv_limit(h as usize, false);
                add(64, h, false, &[-r, -r + 1, -r / 2 - 1, r / 2, r - 2, r - 1], &mut cases);
            }
        }
    }
    r.run("annex-d-plusptype-limited-range", &cases);
    rep.add_nontrivial(cases.len() as u64);
    // ---- streams of different vector modes side by side: extended-range pictures (sub-QCIF and
    // 16-wide, vectors beyond the base range) alternate with base-range pictures whose sums wrap,
    // under all four base header kinds, same temporal references, decoders advanced in turn on one
    // thread
    {
        let umv_hdr = |w: u16, h: u16, inter: bool, tr: u8| -> Hdr {
            let mut s = StdHdr::custom(w, h, inter, tr, 5);
            let p = s.plus.as_mut().unwrap();
            p.opp.modes |= 0x200;
            p.uui = 1;
            Hdr::Std(s)
        };
        let mut mixed: Vec<Vec<Pic>> = vec![];
        let wrap_pairs: [(i8, i8); 6] = [(31, 1), (30, 20), (-32, -1), (-20, -30), (15, 17), (-16, -17)];
        for (k, &(p0, d0)) in wrap_pairs.iter().enumerate() {
            // an extended-range stream: 128x96, first row chains two differentials beyond 15.5
            let mut mbs: Vec<Mb> = vec![Mb::inter((31, 0)), Mb::inter((20 + k as i8, 0))];
            mbs.resize(48, Mb::NotCoded);
            mixed.push(vec![noise_intra(umv_hdr(128, 96, false, 0), seed ^ 0x91), Pic { hdr: umv_hdr(128, 96, true, 1), mbs }]);
            // base-range streams with a wrapping pair, one per header kind
            let pair = vec![Mb::inter((p0, 0)), Mb::inter((d0, 0))];
            mixed.push(vec![ref2.clone(), Pic { hdr: shdr(32, 16, 1, 1, 5, 0), mbs: pair.clone() }]);
            mixed.push(vec![ref2_plus.clone(), Pic { hdr: Hdr::Std(StdHdr::custom(32, 16, true, 1, 5)), mbs: pair.clone() }]);
            let mut m = pair.clone();
            m.extend((2..48).map(|_| Mb::NotCoded));
            mixed.push(vec![ref_base.clone(), Pic { hdr: Hdr::Std(StdHdr::baseline(1, true, 1, 5)), mbs: m }]);
            mixed.push(vec![ref2_v1.clone(), Pic { hdr: shdr(32, 16, 1, 1, 5, 1), mbs: pair.clone() }]);
        }
        r.run_lockstep("vector-modes-side-by-side", &mixed);
        rep.add_nontrivial(mixed.len() as u64);
    }
    rep.assume("Annex D with UUI = 01 (unlimited range) and the PTYPE-only form of Annex D are not asserted: the decoder does not implement them as specified (see DESIGN.md), and the property is stated for the standard range; the size-dependent range of UUI = 1 is asserted for legal vectors only");

    r.finish();
    rep.set_rule(
        "whole P pictures compared with the reference decoder: all 64x64 (predictor, differential) pairs per component and jointly, in a 2-macroblock row (under four header kinds: Sorenson version 0 and 1, H.263 PLUSPTYPE without optional modes, H.263 plain PTYPE, and three mixed histories: a plain-PTYPE picture after a PLUSPTYPE picture with and without unrestricted vectors, a PLUSPTYPE picture after a plain one) and in the centre of a 3x3 grid; all four-vector sums -128..=124 x 3 decompositions x 2 components x 2 positions; every assignment of {INTER, INTER4V, INTRA, not-coded} to the existing neighbours of every target position on 9 macroblock grids x target {INTER, INTER4V}; every MVD codeword; every assignment of zero / non-zero vectors inside one and two four-vector neighbours of every target position; with Annex D in PLUSPTYPE (UUI = 1): every legal vector at widths and heights on both sides of every range-class boundary; thirty streams of different vector modes (extended range next to the four base header kinds, same temporal references) decoded in turn by their own decoders on one thread; \
         non-trivial = all (each case has a non-zero predictor, differential or neighbour)",
    );
    rep.sample(json!({"sweep": "pairs", "case": "32x16: MB0 vector (+15.5, 0), MB1 differential +0.5 -> expected (-16.0, 0)"}));
    rep.sample(json!({"sweep": "chroma", "case": "INTER4V vectors summing to -67 half-samples in x"}));
    rep.sample(json!({"sweep": "neighbourhoods", "case": "3x2 grid, target (2,1): left INTER4V, above INTRA, no above-right"}));
    rep
}
