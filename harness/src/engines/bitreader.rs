//! C14: explicit-state BFS over `H263Reader` for every short source, against a bit-vector model.

use crate::bits::{bits_of, hex, val_of};
use crate::evidence::{catch, panic_sig, Report, Tier};
use h263_rs::parser::H263Reader;
use h263_rs::verif::Entry;
use h263_rs::Error;
use rayon::prelude::*;
use serde_json::json;
use std::cell::{Cell, RefCell};
use std::collections::{HashSet, VecDeque};
use std::io::Read;
use std::rc::Rc;

/// Source seam: counts what the reader pulled, can grow between operations.
struct Src {
    data: Rc<RefCell<Vec<u8>>>,
    pos: Rc<Cell<usize>>,
}
impl Read for Src {
    fn read(&mut self, buf: &mut [u8]) -> std::io::Result<usize> {
        let d = self.data.borrow();
        let p = self.pos.get();
        let n = buf.len().min(d.len() - p);
        buf[..n].copy_from_slice(&d[p..p + n]);
        self.pos.set(p + n);
        Ok(n)
    }
}

#[derive(Clone, Copy, Debug, PartialEq, Eq, Hash)]
pub enum Prim {
    Peek8(u8),
    Peek16(u8),
    Peek32(u8),
    Read8(u8),
    Read16(u8),
    Read32(u8),
    /// signed read into u8 / i16 / i32
    Signed8(u8),
    Signed16(u8),
    Signed32(u8),
    PeekSigned16(u8),
    Skip(u8),
    ReadU8,
    Sc(bool),
    Commit,
    /// read_vlc on table id (0 unary, 1 two-level, 2 dangling index)
    Vlc(u8),
    Umv,
}

#[derive(Clone, Debug, PartialEq, Eq, Hash)]
pub enum Item {
    P(Prim),
    /// nested with_transaction(body, force_fail)
    Tx(Vec<Prim>, bool),
}

#[derive(Clone, Debug, PartialEq, Eq, Hash)]
pub enum Op {
    P(Prim),
    Tx(Vec<Item>, bool),
    Union(Vec<Item>, u8), // 0 Some, 1 None, 2 Err
    Look(Vec<Item>),
    /// make the rest of the source available
    Grow,
}

#[derive(Debug, PartialEq, Clone)]
pub enum Out {
    V(u64),
    Unit,
    Sc(Option<u32>),
    Sym(u8),
    Mv(i32),
    Eof,
    BadWidth,
    BadTable,
    BadMvd,
    Other(String),
}
impl Out {
    fn failed(&self) -> bool {
        matches!(self, Out::Eof | Out::BadWidth | Out::BadTable | Out::BadMvd | Out::Other(_))
    }
}

fn tables() -> [Vec<Entry<u8>>; 3] {
    use Entry::*;
    [
        // 1 -> 10, 01 -> 11, 001 -> 12, 000 -> 13
        vec![Fork(2, 1), End(10), Fork(4, 3), End(11), Fork(6, 5), End(12), End(13)],
        // 0 -> 20, 10 -> 21, 110 -> 22, 1110 -> 23, 1111 -> 24
        vec![Fork(1, 2), End(20), Fork(3, 4), End(21), Fork(5, 6), End(22), Fork(7, 8), End(23), End(24)],
        // 0 -> 30, 1 -> index out of the table
        vec![Fork(1, 9), End(30)],
    ]
}
/// model of the tables: decode from bits; returns (symbol, bits used) / Eof / BadTable
fn vlc_model(t: u8, bits: &[bool]) -> Out {
    let get = |i: usize| bits.get(i).copied();
    match t {
        0 => {
            for i in 0..3 {
                match get(i) {
                    None => return Out::Eof,
                    Some(true) => return Out::Sym(10 + i as u8),
                    Some(false) => {}
                }
            }
            Out::Sym(13)
        }
        1 => {
            for i in 0..4 {
                match get(i) {
                    None => return Out::Eof,
                    Some(false) => return Out::Sym(20 + i as u8),
                    Some(true) => {}
                }
            }
            Out::Sym(24)
        }
        _ => match get(0) {
            None => Out::Eof,
            Some(false) => Out::Sym(30),
            Some(true) => Out::BadTable,
        },
    }
}
fn vlc_len(t: u8, sym: u8) -> usize {
    match t {
        0 => [1, 2, 3, 3][(sym - 10) as usize],
        1 => [1, 2, 3, 4, 4][(sym - 20) as usize],
        _ => 1,
    }
}
/// Table D.3 model: returns (value in half-sample units, bits used)
fn umv_model(bits: &[bool]) -> (Out, usize) {
    let get = |i: usize| bits.get(i).copied();
    match get(0) {
        None => return (Out::Eof, 0),
        Some(true) => return (Out::Mv(0), 1),
        Some(false) => {}
    }
    let mut mant: i32 = 0;
    let mut bulk: i32 = 1;
    let mut i = 1;
    while bulk < 4096 {
        let (a, b) = match (get(i), get(i + 1)) {
            (Some(a), Some(b)) => (a, b),
            _ => return (Out::Eof, 0),
        };
        i += 2;
        if !b {
            let v = mant + bulk;
            return (Out::Mv(if a { -v } else { v }), i);
        }
        mant = (mant << 1) | a as i32;
        bulk <<= 1;
    }
    (Out::BadMvd, 0)
}

pub struct Model<'b> {
    pub bits: &'b [bool],
    pub avail: usize, // bits available
    pub pos: usize,
}
impl<'b> Model<'b> {
    fn left(&self) -> usize {
        self.avail - self.pos
    }
    fn fixed(&mut self, n: u8, width: u32, consume: bool, signed: bool) -> Vec<Out> {
        if n as u32 > width {
            return vec![Out::BadWidth];
        }
        if n as usize > self.left() {
            return vec![Out::Eof];
        }
        let raw = val_of(&self.bits[self.pos..self.pos + n as usize]);
        let mut v = raw;
        if signed && n > 0 && (raw >> (n - 1)) & 1 == 1 {
            // two's complement sign extension, shown in the width of the return type
            let mask = if width == 64 { u64::MAX } else { (1u64 << width) - 1 };
            v = (raw | (u64::MAX << n)) & mask;
        }
        if consume {
            self.pos += n as usize;
        }
        vec![Out::V(v)]
    }
    /// acceptable outcomes of a primitive; advances the model on success
    pub fn prim(&mut self, p: Prim) -> Vec<Out> {
        match p {
            Prim::Peek8(n) => self.fixed(n, 8, false, false),
            Prim::Peek16(n) => self.fixed(n, 16, false, false),
            Prim::Peek32(n) => self.fixed(n, 32, false, false),
            Prim::Read8(n) => self.fixed(n, 8, true, false),
            Prim::Read16(n) => self.fixed(n, 16, true, false),
            Prim::Read32(n) => self.fixed(n, 32, true, false),
            Prim::Signed8(n) => self.fixed(n, 8, true, true),
            Prim::Signed16(n) => self.fixed(n, 16, true, true),
            Prim::Signed32(n) => self.fixed(n, 32, true, true),
            Prim::PeekSigned16(n) => self.fixed(n, 16, false, true),
            Prim::Skip(n) => {
                if n as usize > self.left() {
                    vec![Out::Eof]
                } else {
                    self.pos += n as usize;
                    vec![Out::Unit]
                }
            }
            Prim::ReadU8 => self.fixed(8, 8, true, false),
            Prim::Commit => vec![Out::Unit],
            Prim::Sc(in_error) => {
                let realign = (8 - self.pos % 8) % 8;
                let mut k = 0usize;
                loop {
                    let enough = self.pos + k + 17 <= self.avail;
                    let hit = enough && val_of(&self.bits[self.pos + k..self.pos + k + 17]) == 1;
                    if !in_error && k > realign {
                        // outside the documented window; the implementation looks one bit further
                        let mut acc = vec![Out::Sc(None)];
                        if k == realign + 1 {
                            if hit {
                                acc.push(Out::Sc(Some(k as u32)));
                            }
                            if !enough {
                                acc.push(Out::Eof);
                            }
                        }
                        return acc;
                    }
                    if !enough {
                        return vec![Out::Eof];
                    }
                    if hit {
                        return vec![Out::Sc(Some(k as u32))];
                    }
                    k += 1;
                }
            }
            Prim::Vlc(t) => {
                let o = vlc_model(t, &self.bits[self.pos..self.avail]);
                if let Out::Sym(s) = o {
                    self.pos += vlc_len(t, s);
                }
                vec![o]
            }
            Prim::Umv => {
                let (o, used) = umv_model(&self.bits[self.pos..self.avail]);
                self.pos += used;
                vec![o]
            }
        }
    }
}

fn conv<T>(r: Result<T, Error>, f: impl Fn(T) -> Out) -> Out {
    match r {
        Ok(v) => f(v),
        Err(Error::InternalDecoderError) => Out::BadWidth,
        Err(Error::InvalidMvd) => Out::BadMvd,
        Err(e) if e.is_eof_error() => Out::Eof,
        Err(e) => Out::Other(format!("{e:?}")),
    }
}

fn do_prim<R: Read>(rd: &mut H263Reader<R>, p: Prim, tabs: &[Vec<Entry<u8>>; 3]) -> Out {
    match p {
        Prim::Peek8(n) => conv(rd.peek_bits::<u8>(n as u32), |v| Out::V(v as u64)),
        Prim::Peek16(n) => conv(rd.peek_bits::<u16>(n as u32), |v| Out::V(v as u64)),
        Prim::Peek32(n) => conv(rd.peek_bits::<u32>(n as u32), |v| Out::V(v as u64)),
        Prim::Read8(n) => conv(rd.read_bits::<u8>(n as u32), |v| Out::V(v as u64)),
        Prim::Read16(n) => conv(rd.read_bits::<u16>(n as u32), |v| Out::V(v as u64)),
        Prim::Read32(n) => conv(rd.read_bits::<u32>(n as u32), |v| Out::V(v as u64)),
        Prim::Signed8(n) => conv(rd.read_signed_bits::<u8>(n as u32), |v| Out::V(v as u64)),
        Prim::Signed16(n) => conv(rd.read_signed_bits::<i16>(n as u32), |v| Out::V(v as u16 as u64)),
        Prim::Signed32(n) => conv(rd.read_signed_bits::<i32>(n as u32), |v| Out::V(v as u32 as u64)),
        Prim::PeekSigned16(n) => conv(rd.peek_signed_bits::<i16>(n as u32), |v| Out::V(v as u16 as u64)),
        Prim::Skip(n) => conv(rd.skip_bits(n as u32), |_| Out::Unit),
        Prim::ReadU8 => conv(rd.read_u8(), |v| Out::V(v as u64)),
        Prim::Sc(ie) => conv(rd.recognize_start_code(ie), Out::Sc),
        Prim::Commit => {
            rd.commit();
            Out::Unit
        }
        Prim::Vlc(t) => match rd.read_vlc(&tabs[t as usize][..]) {
            Ok(v) => Out::Sym(v),
            Err(Error::InternalDecoderError) => Out::BadTable,
            Err(e) if e.is_eof_error() => Out::Eof,
            Err(e) => Out::Other(format!("{e:?}")),
        },
        Prim::Umv => conv(rd.read_umv(), |v| {
            let s = format!("{v:?}");
            let n: i32 = s.trim_start_matches("HalfPel(").trim_end_matches(')').parse().unwrap_or(i32::MIN);
            Out::Mv(n)
        }),
    }
}

/// Run a body on the model, following the outcomes the reader actually produced (`outs`) wherever
/// the model allows more than one. Returns Ok(failed?) or a description of the first disagreement.
fn model_body(m: &mut Model, body: &[Item], outs: &[Out], what: &str) -> Result<bool, String> {
    let mut idx = 0;
    let mut step = |m: &mut Model, p: Prim| -> Result<bool, String> {
        let a = m.prim(p);
        let got = outs.get(idx).ok_or_else(|| format!("{what}: reader stopped before step {idx} ({p:?}), model allows {a:?}"))?;
        if !a.contains(got) {
            return Err(format!("{what} step {idx} {p:?}: reader returned {got:?}, bit-vector model allows {a:?}"));
        }
        idx += 1;
        Ok(got.failed())
    };
    let mut failed = false;
    'outer: for it in body {
        match it {
            Item::P(p) => {
                if step(m, *p)? {
                    failed = true;
                    break 'outer;
                }
            }
            Item::Tx(inner, fail) => {
                let start = m.pos;
                let mut bad = false;
                for p in inner {
                    if step(m, *p)? {
                        bad = true;
                        break;
                    }
                }
                if bad || *fail {
                    m.pos = start;
                    // a failed inner transaction makes the outer body return Err as well
                    failed = true;
                    break 'outer;
                }
            }
        }
    }
    if idx != outs.len() {
        return Err(format!("{what}: reader ran {} steps, model {}", outs.len(), idx));
    }
    Ok(failed)
}

/// run a body on the real reader inside a closure: Err(InvalidBitstream) as soon as a step fails
fn real_body<R: Read>(rd: &mut H263Reader<R>, body: &[Item], outs: &mut Vec<Out>, tabs: &[Vec<Entry<u8>>; 3]) -> Result<(), Error> {
    for it in body {
        match it {
            Item::P(p) => {
                let o = do_prim(rd, *p, tabs);
                let bad = o.failed();
                outs.push(o);
                if bad {
                    return Err(Error::InvalidBitstream);
                }
            }
            Item::Tx(inner, fail) => {
                rd.with_transaction(|rd| {
                    for p in inner {
                        let o = do_prim(rd, *p, tabs);
                        let bad = o.failed();
                        outs.push(o);
                        if bad {
                            return Err(Error::InvalidBitstream);
                        }
                    }
                    if *fail {
                        Err(Error::InvalidBitstream)
                    } else {
                        Ok(())
                    }
                })?;
            }
        }
    }
    Ok(())
}

struct Harness<'a> {
    data: &'a [u8],
    bits: &'a [bool],
    initial_avail: usize, // bytes available before Grow
    tabs: [Vec<Entry<u8>>; 3],
}

type Key = (usize, usize, usize, bool, usize, usize);

impl<'a> Harness<'a> {
    /// Replay `hist` on a fresh reader + model. Ok((key, model position, identity holds)).
    fn run(&self, hist: &[&Op], drain: bool) -> Result<(Key, usize, bool), String> {
        let shared = Rc::new(RefCell::new(self.data[..self.initial_avail].to_vec()));
        let pos = Rc::new(Cell::new(0));
        let mut rd = H263Reader::from_source(Src { data: shared.clone(), pos: pos.clone() });
        let mut m = Model { bits: self.bits, avail: self.initial_avail * 8, pos: 0 };
        let mut grown = self.initial_avail == self.data.len();
        for (i, op) in hist.iter().enumerate() {
            let r = catch(|| self.apply(&mut rd, &mut m, op, &shared, &mut grown));
            match r {
                Err(p) => return Err(format!("step {i} {op:?}: panic {p}")),
                Ok(Err(e)) => return Err(format!("step {i} {op:?}: {e}")),
                Ok(Ok(())) => {}
            }
        }
        let (bl, br) = rd.verif_state();
        let pulled = pos.get();
        let identity = (pulled - bl) * 8 + br == m.pos;
        if drain {
            // every remaining bit must come out exactly once, in order
            let mut got = vec![];
            loop {
                match rd.read_bits::<u8>(1) {
                    Ok(b) => got.push(b == 1),
                    Err(e) if e.is_eof_error() => break,
                    Err(e) => return Err(format!("drain: unexpected {e:?}")),
                }
                if got.len() > self.bits.len() + 8 {
                    return Err("drain: reader delivers more bits than the source holds".into());
                }
            }
            if got != self.bits[m.pos..m.avail] {
                return Err(format!(
                    "drain after the history: reader delivers {} remaining bit(s) {:?}..., source has {} from model position {}",
                    got.len(),
                    &got[..got.len().min(16)],
                    m.avail - m.pos,
                    m.pos
                ));
            }
        }
        let (cap, front) = rd.verif_layout();
        Ok(((pulled, bl, br, grown, cap, front), m.pos, identity))
    }

    fn apply<R: Read>(&self, rd: &mut H263Reader<R>, m: &mut Model, op: &Op, shared: &Rc<RefCell<Vec<u8>>>, grown: &mut bool) -> Result<(), String> {
        match op {
            Op::Grow => {
                if !*grown {
                    shared.borrow_mut().extend_from_slice(&self.data[self.initial_avail..]);
                    m.avail = self.data.len() * 8;
                    *grown = true;
                }
                Ok(())
            }
            Op::P(p) => {
                let acc = m.prim(*p);
                let got = do_prim(rd, *p, &self.tabs);
                if acc.contains(&got) {
                    Ok(())
                } else {
                    Err(format!("reader returned {got:?}, bit-vector model allows {acc:?}"))
                }
            }
            Op::Tx(body, fail) => {
                let mut outs = vec![];
                let r = rd.with_transaction(|rd| {
                    real_body(rd, body, &mut outs, &self.tabs)?;
                    if *fail {
                        Err(Error::InvalidBitstream)
                    } else {
                        Ok(())
                    }
                });
                let start = m.pos;
                let mfail = model_body(m, body, &outs, "transaction")?;
                if mfail || *fail {
                    m.pos = start;
                }
                if r.is_ok() == (mfail || *fail) {
                    return Err(format!("transaction returned {:?}, model expects {}", r.is_ok(), if mfail || *fail { "Err" } else { "Ok" }));
                }
                Ok(())
            }
            Op::Union(body, mode) => {
                let mut outs = vec![];
                let r = rd.with_transaction_union(|rd| {
                    real_body(rd, body, &mut outs, &self.tabs)?;
                    match mode {
                        0 => Ok(Some(())),
                        1 => Ok(None),
                        _ => Err(Error::InvalidBitstream),
                    }
                });
                let start = m.pos;
                let mfail = model_body(m, body, &outs, "union")?;
                if mfail || *mode != 0 {
                    m.pos = start;
                }
                let exp = if mfail { 2 } else { *mode };
                let got = match r {
                    Ok(Some(())) => 0,
                    Ok(None) => 1,
                    Err(_) => 2,
                };
                if exp != got {
                    return Err(format!("union returned kind {got}, model expects {exp}"));
                }
                Ok(())
            }
            Op::Look(body) => {
                let mut outs = vec![];
                let _ = rd.with_lookahead(|rd| real_body(rd, body, &mut outs, &self.tabs));
                let start = m.pos;
                let r = model_body(m, body, &outs, "lookahead");
                m.pos = start;
                r.map(|_| ())
            }
        }
    }
}

fn build_ops(tier: Tier) -> Vec<Op> {
    let mut prims: Vec<Prim> = vec![];
    let widths: &[u8] = &[0, 1, 2, 7, 8, 9, 16, 17, 31, 32, 33];
    for &n in widths {
        prims.push(Prim::Peek32(n));
        prims.push(Prim::Read32(n));
        prims.push(Prim::Skip(n));
    }
    for n in [0u8, 1, 3, 8, 9] {
        prims.push(Prim::Read8(n));
        prims.push(Prim::Peek8(n));
    }
    for n in [1u8, 5, 15, 16, 17] {
        prims.push(Prim::Read16(n));
        prims.push(Prim::Peek16(n));
    }
    for n in [0u8, 1, 2, 7, 8, 9] {
        prims.push(Prim::Signed8(n));
    }
    for n in [1u8, 2, 7, 8, 9, 15, 16, 17] {
        prims.push(Prim::Signed16(n));
    }
    for n in [1u8, 11, 32, 33] {
        prims.push(Prim::Signed32(n));
    }
    for n in [0u8, 1, 7, 16] {
        prims.push(Prim::PeekSigned16(n));
    }
    prims.extend([Prim::ReadU8, Prim::Sc(false), Prim::Sc(true), Prim::Commit]);
    let inner = [
        Prim::Read32(1),
        Prim::Read32(7),
        Prim::Read32(17),
        Prim::Skip(8),
        Prim::Sc(false),
        Prim::Peek32(9),
        Prim::Vlc(0),
        Prim::Umv,
    ];
    let mut bodies: Vec<Vec<Item>> = vec![];
    for a in inner {
        bodies.push(vec![Item::P(a)]);
    }
    bodies.push(vec![Item::P(Prim::Vlc(1))]);
    bodies.push(vec![Item::P(Prim::Vlc(2))]);
    bodies.push(vec![Item::P(Prim::Signed16(9))]);
    for a in inner {
        for b in inner {
            bodies.push(vec![Item::P(a), Item::P(b)]);
        }
    }
    // one level of nesting: read, then an inner transaction that commits or fails, then read
    for f in [false, true] {
        for a in [Prim::Read32(1), Prim::Read32(7), Prim::Skip(8), Prim::Vlc(0)] {
            bodies.push(vec![Item::Tx(vec![a], f)]);
            bodies.push(vec![Item::P(Prim::Read32(2)), Item::Tx(vec![a], f)]);
            bodies.push(vec![Item::Tx(vec![a], f), Item::P(Prim::Read32(3))]);
        }
    }
    let mut ops: Vec<Op> = prims.iter().map(|p| Op::P(*p)).collect();
    // a transaction that commits the buffer as its last step (or before a last read) and then
    // succeeds - what the decoder does at the end of every picture. (A commit inside a transaction
    // that then *fails* is outside the documented contract and is not generated.)
    for a in [Prim::Read32(1), Prim::Read32(7), Prim::Skip(8), Prim::Read32(17), Prim::Read32(9)] {
        ops.push(Op::Tx(vec![Item::P(a), Item::P(Prim::Commit)], false));
        ops.push(Op::Union(vec![Item::P(a), Item::P(Prim::Commit)], 0));
        ops.push(Op::Tx(vec![Item::P(a), Item::P(Prim::Commit), Item::P(Prim::Read32(2))], false));
    }
    for b in &bodies {
        ops.push(Op::Tx(b.clone(), false));
        ops.push(Op::Tx(b.clone(), true));
        for mode in 0..3 {
            ops.push(Op::Union(b.clone(), mode));
        }
        ops.push(Op::Look(b.clone()));
    }
    ops.push(Op::Grow);
    let _ = tier;
    ops
}

fn sources(tier: Tier) -> Vec<(Vec<u8>, usize)> {
    let (letters, maxlen): (Vec<u8>, usize) =
        if tier.thorough() { (vec![0x00, 0x01, 0x80, 0xA5, 0xFF], 5) } else { (vec![0x00, 0x80, 0xA5, 0xFF], 4) };
    let mut all: Vec<Vec<u8>> = vec![vec![]];
    let mut level: Vec<Vec<u8>> = vec![vec![]];
    for _ in 0..maxlen {
        let mut next = vec![];
        for s in &level {
            for l in &letters {
                let mut t = s.clone();
                t.push(*l);
                next.push(t);
            }
        }
        all.extend(next.iter().cloned());
        level = next;
    }
    // hand-placed long sources: start codes 9, 17, 40 bits ahead, 16 zeros without the one, UMV escape
    all.push(vec![0xFF, 0x80, 0x00, 0x40, 0x12]); // start code begins at bit 9
    all.push(vec![0xA5, 0xFF, 0x80, 0x00, 0x40]); // start code begins at bit 17
    all.push(vec![0xFF, 0xFF, 0xFF, 0xFF, 0xFF, 0x00, 0x00, 0x80]); // 40 bits ahead
    all.push(vec![0x00, 0x00, 0x00, 0x00, 0x7F]);
    all.push(vec![0x55, 0x55, 0x55, 0x55, 0x50]); // UMV with 12+ continuation pairs
    all.push(vec![0x2A, 0xAA, 0xAA, 0xAA, 0x00, 0x01]);
    // long sources: enough bytes for the retained buffer to grow, be committed part-way and refill
    // past its physical end (a ring buffer wraps only after at least eight bytes)
    all.push(vec![0xA5, 0x3C, 0x96, 0x0F, 0xF0, 0x69, 0xC3, 0x5A, 0x81, 0x7E, 0x24, 0xDB]);
    all.push(vec![0xFF, 0x00, 0x00, 0x80, 0x12, 0x34, 0x56, 0x78, 0x9A, 0x00, 0x00, 0x80, 0x01]);
    all.push(vec![0x00, 0x00, 0x00, 0x00, 0x00, 0x00, 0x00, 0x00, 0x00, 0x00, 0x40, 0x00]);
    all.push(vec![0x80, 0x40, 0x20, 0x10, 0x08, 0x04, 0x02, 0x01, 0xFE, 0xFD, 0xFB, 0xF7, 0xEF, 0xDF, 0xBF, 0x7F]);
    let mut out: Vec<(Vec<u8>, usize)> = vec![];
    for s in all {
        let n = s.len();
        out.push((s.clone(), n));
        // split delivery: the first half is there, the rest arrives with Grow
        if n >= 2 && (tier.thorough() || n <= 3) {
            out.push((s.clone(), n / 2));
            if n >= 3 {
                out.push((s, n - 1));
            }
        }
    }
    out
}

pub fn run(tier: Tier) -> Report {
    let rep = Report::new("C14", "bitreader", tier);
    let ops = build_ops(tier);
    let srcs = sources(tier);
    rep.extra("operations_per_state", json!(ops.len()));
    rep.extra("sources", json!(srcs.len()));
    let results: Vec<(u64, u64, usize, u64, u64)> = srcs
        .par_iter()
        .map(|(data, avail)| {
            let bits = bits_of(data);
            let h = Harness { data, bits: &bits, initial_avail: *avail, tabs: tables() };
            let mut seen: HashSet<Key> = HashSet::new();
            let mut queue: VecDeque<Vec<usize>> = VecDeque::new();
            let (k0, _, _) = h.run(&[], false).expect("empty history");
            seen.insert(k0);
            queue.push_back(vec![]);
            let (mut tr, mut maxd, mut ident_bad, mut nontrivial) = (0u64, 0usize, 0u64, 0u64);
            while let Some(hist) = queue.pop_front() {
                maxd = maxd.max(hist.len());
                for oi in 0..ops.len() {
                    if matches!(ops[oi], Op::Grow) && (*avail == data.len()) {
                        continue;
                    }
                    let mut h2 = hist.clone();
                    h2.push(oi);
                    let opsref: Vec<&Op> = h2.iter().map(|i| &ops[*i]).collect();
                    tr += 1;
                    match h.run(&opsref, false) {
                        Err(e) => report(&rep, data, *avail, &opsref, &e, &h2, tier.thorough()),
                        Ok((k, mpos, ident)) => {
                            if !ident {
                                ident_bad += 1;
                            }
                            if !matches!(ops[oi], Op::P(_)) || mpos % 8 != 0 {
                                nontrivial += 1;
                            }
                            if seen.insert(k) {
                                // new state: drain probe pins "each bit exactly once, in order"
                                tr += 1;
                                if let Err(e) = h.run(&opsref, true) {
                                    report(&rep, data, *avail, &opsref, &e, &h2, tier.thorough());
                                }
                                queue.push_back(h2);
                            }
                        }
                    }
                }
            }
            (seen.len() as u64, tr, maxd, ident_bad, nontrivial)
        })
        .collect();
    rep.add_states(results.iter().map(|r| r.0).sum());
    rep.add_transitions(results.iter().map(|r| r.1).sum());
    rep.add_nontrivial(results.iter().map(|r| r.4).sum());
    rep.extra("max_depth", json!(results.iter().map(|r| r.2).max().unwrap_or(0)));
    rep.extra("fixpoint", json!(true));
    rep.extra("max_states_per_source", json!(results.iter().map(|r| r.0).max().unwrap_or(0)));
    rep.extra("position_identity_mismatches_logged_not_judged", json!(results.iter().map(|r| r.3).sum::<u64>()));

    one_step_sweep(&rep, tier);
    long_range_sweep(&rep, tier);
    unmerged_histories(&rep, tier, &ops);
    start_code_sweep(&rep, tier);
    source_fault_sweep(&rep, tier);
    type_width_sweep(&rep);
    overlong_skip_sweep(&rep);

    rep.set_rule(
        "BFS to fixpoint over the reader's exact state (bytes pulled, buffer length, bit offset, grown?, and the ring buffer's physical layout: capacity and first-slice length) for every source; every operation of the alphabet applied in every state, every step compared with a bit-vector model, a drain probe at every new state; \
         plus every history of 4 (thorough 5) operations over a reduced alphabet without state merging, with a drain probe at the end; plus every pair of primitives with at most one departure from the byte source's default answer (the k-th read reports Interrupted / WouldBlock / another error, or one byte per read); plus a start code at every bit position 0..150 of zero-free noise, searched after look-aheads that left up to 200 bits buffered and skips of 0..8 bits, with and without in_error; plus a one-step sweep of all two-byte sources x offsets x widths x types; plus a long-range sweep (one skip of 2^k + d bits, k = 3..25 (thorough 28), d = -9..9, from bit offsets 0, 3 and 8 of a multi-megabyte source, then reads of several widths in four orders and the exact reader state, also on sources that answer with short counts (one byte, irregular chunk sizes), or the same inside a transaction that fails and must leave the reader where it started; and skips beyond the end of the source up to u32::MAX); non-trivial transition = transaction/union/look-ahead/grow, or any step ending off a byte boundary",
    );
    rep.sample(json!({"source": "00 80 a5", "history": ["read_bits::<u32>(1)", "commit", "with_transaction{read 17 bits; fail}", "read_u8"]}));
    rep.sample(json!({"source": "ff 80 00 40 12", "history": ["skip_bits(7)", "recognize_start_code(false) -> Some(2)"]}));
    rep.sample(json!({"source": "a5 ff (second byte arrives later)", "history": ["peek_bits::<u32>(9) -> end of data", "Grow", "read_bits::<u32>(9)"]}));
    rep.assume("commit() inside a transaction that subsequently fails is outside the documented contract and is not generated");
    rep.assume("read_vlc/read_umv are only issued inside transaction wrappers because their position after an error is documented as undefined");
    rep
}

fn report(rep: &Report, data: &[u8], avail: usize, ops: &[&Op], e: &str, idx: &[usize], thorough: bool) {
    let last = ops.last().map(|o| format!("{o:?}")).unwrap_or_default();
    let class = if e.contains("panic") {
        panic_sig(e.split("panic ").nth(1).unwrap_or(e))
    } else if e.starts_with("drain") || e.contains("drain") {
        "C14/drain".to_string()
    } else {
        let opname: String = last.chars().take_while(|c| c.is_alphanumeric()).collect();
        let inner = if last.contains("Sc(") { "-startcode" } else if last.contains("Vlc") { "-vlc" } else if last.contains("Umv") { "-umv" } else { "" };
        format!("C14/{}{}-after-{}-ops", opname, inner, (ops.len() - 1).min(3))
    };
    rep.violation(
        &class,
        format!("source {} (first {avail} byte(s) available): after {:?}: {e}", hex(data), ops),
        json!({"kind": "reader", "source": hex(data), "initially_available": avail, "history": ops.iter().map(|o| format!("{o:?}")).collect::<Vec<_>>(), "op_indices": idx, "thorough_alphabet": thorough, "error": e}),
    );
}

/// Value correctness for arbitrary data: all 65536 two-byte sources x offsets x widths x types.
fn one_step_sweep(rep: &Report, tier: Tier) {
    let tail = [0xC3u8, 0x5A, 0x0F, 0x96, 0x3C];
    let offsets: Vec<u8> = if tier.thorough() { (0..16).collect() } else { vec![0, 1, 3, 4, 7, 8, 9, 13, 15] };
    let n: u64 = (0..65536usize)
        .into_par_iter()
        .map(|v| {
            let mut data = vec![(v >> 8) as u8, v as u8];
            data.extend_from_slice(&tail);
            let bits = bits_of(&data);
            let tabs = tables();
            let mut count = 0u64;
            for &off in &offsets {
                for width in 0..=33u8 {
                    for p in [
                        Prim::Peek8(width), Prim::Read8(width), Prim::Peek16(width), Prim::Read16(width), Prim::Peek32(width), Prim::Read32(width),
                        Prim::Signed8(width), Prim::Signed16(width), Prim::Signed32(width), Prim::PeekSigned16(width),
                    ] {
                        let signed = matches!(p, Prim::Signed8(_) | Prim::Signed16(_) | Prim::Signed32(_) | Prim::PeekSigned16(_));
                        let mut rd = H263Reader::from_source(&data[..]);
                        let mut m = Model { bits: &bits, avail: bits.len(), pos: 0 };
                        let _ = rd.skip_bits(off as u32);
                        m.pos = off as usize;
                        let acc = m.prim(p);
                        count += 1;
                        match catch(|| do_prim(&mut rd, p, &tabs)) {
                            Err(pm) => rep.violation(&panic_sig(&pm), format!("source {} offset {off} {p:?}: panic {pm}", hex(&data)), json!({"kind":"reader","source":hex(&data),"history":[format!("Skip({off})"), format!("{p:?}")]})),
                            Ok(got) => {
                                let mut ok = acc.contains(&got);
                                if ok && !got.failed() {
                                    // the next byte read must continue from the model position
                                    let nb = rd.read_u8().ok().map(|b| b as u64);
                                    let exp = if m.pos + 8 <= bits.len() { Some(val_of(&bits[m.pos..m.pos + 8])) } else { None };
                                    ok = nb == exp;
                                }
                                if !ok {
                                    let name = format!("{p:?}");
                                    let opname: String = name.chars().take_while(|c| c.is_alphanumeric()).collect();
                                    rep.violation(
                                        &format!("C14/value-{opname}"),
                                        format!("source {} bit offset {off} {p:?}: reader returned {got:?}, model allows {acc:?} (or the following byte is wrong)", hex(&data)),
                                        json!({"kind":"reader","source":hex(&data),"history":[format!("Skip({off})"), format!("{p:?}")]}),
                                    );
                                }
                            }
                        }
                    }
                }
            }
            count
        })
        .sum();
    rep.add_transitions(n);
    rep.add_states(65536 * offsets.len() as u64);
    rep.extra("one_step_sweep_operations", json!(n));
}

/// Bounded history search without state merging: every sequence of 4 (thorough 5) operations of a
/// reduced alphabet on a few sources, each with a drain probe at the end. The BFS above merges
/// reader states on the hooked key; this part covers state the key cannot see.
fn unmerged_histories(rep: &Report, tier: Tier, ops: &[Op]) {
    let keep_prims = [Prim::Read32(1), Prim::Read32(7), Prim::Read32(9), Prim::Read32(17), Prim::Peek32(16), Prim::Skip(2), Prim::Skip(8), Prim::Signed16(9), Prim::ReadU8, Prim::Sc(false), Prim::Sc(true), Prim::Commit];
    let mut red: Vec<usize> = ops.iter().enumerate().filter(|(_, o)| matches!(o, Op::P(p) if keep_prims.contains(p))).map(|(i, _)| i).collect();
    // transactions / unions / look-aheads with the single-primitive bodies "read 7" and "VLC", and Grow
    for (i, o) in ops.iter().enumerate() {
        let single = |b: &Vec<Item>| b.len() == 1 && matches!(b[0], Item::P(Prim::Read32(7)) | Item::P(Prim::Vlc(0)));
        match o {
            Op::Tx(b, _) | Op::Look(b) if single(b) => red.push(i),
            Op::Union(b, m) if single(b) && *m != 0 => red.push(i),
            Op::Grow => red.push(i),
            _ => {}
        }
    }
    let depth = if tier.thorough() { 5 } else { 4 };
    let srcs: Vec<(Vec<u8>, usize)> = vec![
        (vec![0xA5, 0x3C, 0x96, 0x0F, 0xF0, 0x69, 0xC3, 0x5A, 0x81, 0x7E, 0x24, 0xDB], 12),
        (vec![0xFF, 0x00, 0x00, 0x80, 0x12, 0x34, 0x56, 0x78, 0x9A, 0x00, 0x00, 0x80, 0x01], 5),
        (vec![0x00, 0x00, 0x80, 0xA5], 2),
    ];
    let n = red.len();
    let total = n.pow(depth as u32);
    let mut steps = 0u64;
    for (data, avail) in &srcs {
        let bits = bits_of(data);
        (0..total).into_par_iter().for_each(|code| {
            let h = Harness { data, bits: &bits, initial_avail: *avail, tabs: tables() };
            let mut idx = Vec::with_capacity(depth);
            let mut c = code;
            for _ in 0..depth {
                idx.push(red[c % n]);
                c /= n;
            }
            if *avail == data.len() && idx.iter().any(|i| matches!(ops[*i], Op::Grow)) {
                return;
            }
            let opsref: Vec<&Op> = idx.iter().map(|i| &ops[*i]).collect();
            if let Err(e) = h.run(&opsref, true) {
                report(rep, data, *avail, &opsref, &e, &idx, tier.thorough());
            }
        });
        steps += (total * depth) as u64;
    }
    rep.add_transitions(steps);
    rep.add_states(steps / depth as u64);
    rep.extra("unmerged_history_steps", json!(steps));
    rep.extra("unmerged_history_alphabet", json!(n));
    rep.extra("reader_object_size", json!(H263Reader::<&[u8]>::verif_object_size()));
}

/// Start-code search in long sources: one start code at every bit position 0..150 of 28 bytes of
/// zero-free noise (six byte pools), searched after a look-ahead that left 0..200 bits buffered and
/// a skip of 0..8 bits, with and without `in_error`.
fn start_code_sweep(rep: &Report, tier: Tier) {
    let pools: [&[u8]; 6] = [&[0xFF], &[0xF0, 0xFF, 0x0F], &[0x01, 0xFF, 0x80, 0x7F], &[0x55, 0xAA, 0x33], &[0x10, 0x08, 0xFE, 0x01, 0xC0], &[0x81, 0x7E, 0x24, 0xDB, 0x5A, 0x3C, 0x96]];
    let looks: Vec<usize> = if tier.thorough() { vec![0, 8, 33, 40, 64, 72, 96, 104, 128, 160, 200] } else { vec![0, 40, 64, 96, 128, 200] };
    let mut work: Vec<(usize, usize, usize)> = vec![];
    for pool in 0..pools.len() {
        for p in 0..=150usize {
            for &k in &looks {
                work.push((pool, p, k));
            }
        }
    }
    let n: u64 = work
        .par_iter()
        .map(|&(pool, p, k)| {
            let mut data: Vec<u8> = (0..28).map(|i| pools[pool][(i * 5 + i / 3) % pools[pool].len()]).collect();
            // write sixteen zeros and a one at bit p
            for b in p..p + 17 {
                let (byte, bit) = (b / 8, 7 - b % 8);
                if b == p + 16 {
                    data[byte] |= 1 << bit;
                } else {
                    data[byte] &= !(1 << bit);
                }
            }
            let bits = bits_of(&data);
            let h = Harness { data: &data, bits: &bits, initial_avail: data.len(), tabs: tables() };
            let mut count = 0u64;
            for s in 0..=8u8 {
                for ie in [false, true] {
                    let mut ops: Vec<Op> = vec![];
                    if k > 0 {
                        let mut body = vec![];
                        let mut left = k;
                        while left > 0 {
                            let step = left.min(100);
                            body.push(Item::P(Prim::Skip(step as u8)));
                            left -= step;
                        }
                        ops.push(Op::Look(body));
                    }
                    if s > 0 {
                        ops.push(Op::P(Prim::Skip(s)));
                    }
                    ops.push(Op::P(Prim::Sc(ie)));
                    ops.push(Op::P(Prim::Sc(true)));
                    let refs: Vec<&Op> = ops.iter().collect();
                    count += 1;
                    if let Err(e) = h.run(&refs, true) {
                        let class = if e.contains("panic") { panic_sig(e.split("panic ").nth(1).unwrap_or(&e)) } else { format!("C14/start-code-search-{}", if ie { "in-error" } else { "aligned" }) };
                        rep.violation(&class, format!("source {} (start code at bit {p}): after {:?}: {e}", hex(&data), refs), json!({"kind": "reader-sc", "source": hex(&data), "start_code_at_bit": p, "look_ahead_bits": k, "skip": s, "in_error": ie, "error": e}));
                    }
                }
            }
            count
        })
        .sum();
    rep.add_transitions(3 * n);
    rep.add_states(n);
    rep.extra("start_code_search_cases", json!(n));
}

/// Source seam with environment answers: the `fail_at`-th call of `read` answers with an I/O error
/// of the given kind instead of data (once); `chunk` limits how many bytes one call delivers.
struct FaultSrc<'a> {
    data: &'a [u8],
    pos: usize,
    calls: usize,
    fail_at: Option<(usize, std::io::ErrorKind)>,
    fail_again_at: Option<(usize, std::io::ErrorKind)>,
    chunk: usize,
}
impl Read for FaultSrc<'_> {
    fn read(&mut self, buf: &mut [u8]) -> std::io::Result<usize> {
        let c = self.calls;
        self.calls += 1;
        for (k, kind) in self.fail_at.iter().chain(self.fail_again_at.iter()) {
            if *k == c {
                return Err(std::io::Error::new(*kind, "injected"));
            }
        }
        let n = buf.len().min(self.data.len() - self.pos).min(self.chunk);
        buf[..n].copy_from_slice(&self.data[self.pos..self.pos + n]);
        self.pos += n;
        Ok(n)
    }
}

/// Deviation-bounded environment: every pair of primitives of a reduced alphabet on a few sources,
/// with at most one departure from the default answer of the byte source - the k-th `read` call
/// (every k) reports `Interrupted` (to be retried transparently) or `WouldBlock` (the operation may
/// fail, must consume nothing, and succeeds when repeated) - and with sources that deliver one byte
/// per call. Afterwards every remaining bit is drained and compared.
/// Every result type the generic reads accept (unsigned and signed, 8 to 128 bits, pointer-sized)
/// x every width 0..=BITS x every bit phase x four sources: unsigned reads deliver the field
/// zero-extended (for a signed type at full width: the bit pattern), signed reads sign-extend it,
/// peeks do not move, reads move by exactly the width. Wider-than-type requests, whatever they
/// answer, must not consume anything when they fail.
fn type_width_sweep(rep: &Report) {
    let sources: Vec<Vec<u8>> = vec![
        vec![0xFF; 24],
        (0..24u32).map(|i| (i.wrapping_mul(0x9D) ^ 0xA5) as u8).collect(),
        std::iter::once(0x80u8).chain(std::iter::repeat(0x00).take(23)).collect(),
        std::iter::once(0x7Fu8).chain((0..23u32).map(|i| (0xC3u32.wrapping_mul(i + 1)) as u8)).collect(),
    ];
    let n_cases = std::sync::atomic::AtomicU64::new(0);
    macro_rules! sweep {
        ($t:ty, $u:ty, $name:expr) => {{
            let bits_t = <$u>::BITS as usize;
            for src in &sources {
                let all = bits_of(src);
                for phase in 0..8usize {
                    for n in 0..=bits_t + 2 {
                        n_cases.fetch_add(1, std::sync::atomic::Ordering::Relaxed);
                        let field: u128 = all[phase..phase + n.min(128)].iter().fold(0u128, |a, &b| (a << 1) | b as u128);
                        let mask_t: u128 = if bits_t == 128 { u128::MAX } else { (1u128 << bits_t) - 1 };
                        let fail = |what: String| {
                            rep.violation_lazy(&format!("C14/generic-read-by-result-type[{}]", $name), || {
                                (format!("source {} after skipping {phase} bits, width {n}, result type {}: {what}", hex(src), $name), json!({"kind": "reader-type", "source": hex(src), "phase": phase, "width": n, "type": $name}))
                            });
                        };
                        let fresh = || {
                            let mut rd = H263Reader::from_source(&src[..]);
                            rd.skip_bits(phase as u32).expect("skip");
                            rd
                        };
                        let next_byte = |k: usize| -> u64 { all[phase + k..phase + k + 8].iter().fold(0u64, |a, &b| (a << 1) | b as u64) };
                        // unsigned
                        let mut rd = fresh();
                        let pk = rd.peek_bits::<$t>(n as u32);
                        let pk2 = rd.peek_bits::<$t>(n as u32);
                        let r = rd.read_bits::<$t>(n as u32);
                        if n <= bits_t {
                            match (&pk, &pk2, &r) {
                                (Ok(a), Ok(b), Ok(c)) => {
                                    let (a, b, c) = (*a as $u as u128, *b as $u as u128, *c as $u as u128);
                                    if a != field || b != field || c != field {
                                        fail(format!("peek, peek, read deliver {a:#x}, {b:#x}, {c:#x}; the field is {field:#x}"));
                                        continue;
                                    }
                                    match rd.read_bits::<u8>(8) {
                                        Ok(v) if v as u64 == next_byte(n) => {}
                                        other => {
                                            fail(format!("after the read the next eight bits come out as {other:?}, the source has {:#x} there", next_byte(n)));
                                            continue;
                                        }
                                    }
                                }
                                _ => {
                                    fail(format!("peek, peek, read answer {:?}, {:?}, {:?} although the bits are there", pk.as_ref().map(|v| *v as $u as u128), pk2.as_ref().map(|v| *v as $u as u128), r.as_ref().map(|v| *v as $u as u128)));
                                    continue;
                                }
                            }
                        } else if r.is_err() {
                            match rd.read_bits::<u8>(8) {
                                Ok(v) if v as u64 == next_byte(0) => {}
                                other => {
                                    fail(format!("a refused over-wide read consumed input: the next eight bits come out as {other:?}"));
                                    continue;
                                }
                            }
                        }
                        // signed (a zero-width signed field is zero)
                        let mut rd = fresh();
                        let pk = rd.peek_signed_bits::<$t>(n as u32);
                        let r = rd.read_signed_bits::<$t>(n as u32);
                        if n <= bits_t {
                            let want = if n > 0 && (field >> (n - 1)) & 1 == 1 { (field | !((1u128 << (n - 1) << 1).wrapping_sub(1))) & mask_t } else { field };
                            match (&pk, &r) {
                                (Ok(a), Ok(c)) => {
                                    let (a, c) = (*a as $u as u128, *c as $u as u128);
                                    if a != want || c != want {
                                        fail(format!("signed peek and read deliver {a:#x}, {c:#x}; the sign-extended field is {want:#x}"));
                                        continue;
                                    }
                                    match rd.read_bits::<u8>(8) {
                                        Ok(v) if v as u64 == next_byte(n) => {}
                                        other => {
                                            fail(format!("after the signed read the next eight bits come out as {other:?}, the source has {:#x} there", next_byte(n)));
                                            continue;
                                        }
                                    }
                                }
                                _ => {
                                    fail(format!("signed peek and read answer {:?}, {:?} although the bits are there", pk.as_ref().map(|v| *v as $u as u128), r.as_ref().map(|v| *v as $u as u128)));
                                    continue;
                                }
                            }
                        } else if r.is_err() {
                            match rd.read_bits::<u8>(8) {
                                Ok(v) if v as u64 == next_byte(0) => {}
                                other => fail(format!("a refused over-wide signed read consumed input: the next eight bits come out as {other:?}")),
                            }
                        }
                    }
                }
            }
        }};
    }
    sweep!(u8, u8, "u8");
    sweep!(u16, u16, "u16");
    sweep!(u32, u32, "u32");
    sweep!(u64, u64, "u64");
    sweep!(u128, u128, "u128");
    sweep!(usize, usize, "usize");
    sweep!(i16, u16, "i16");
    sweep!(i32, u32, "i32");
    sweep!(i64, u64, "i64");
    sweep!(i128, u128, "i128");
    sweep!(isize, usize, "isize");
    let n = n_cases.into_inner();
    rep.add_states(n);
    rep.add_transitions(7 * n);
    rep.extra("result_type_x_width_x_phase_cases", json!(n));
}

/// A skip (or a wide read inside a transaction) that asks for more than the source holds, from
/// every kind of distance: sources of 1..=200 bytes, positions at several phases, excess from one
/// bit to thousands. The request must report end of data and consume nothing: every remaining bit
/// of the source is still delivered afterwards, in order.
fn overlong_case<R: Read>(mut rd: H263Reader<R>, bits: &[bool], pos: usize, extra: usize, variant: usize) -> Result<(), String> {
    let left = bits.len() - pos;
    if pos > 0 {
        rd.skip_bits(pos as u32).map_err(|e| format!("positioning skip failed: {e:?}"))?;
    }
    // variant 1: a 32-bit read past the end comes first (when fewer than 32 bits remain)
    if variant == 1 && left < 32 && rd.read_bits::<u32>(32).is_ok() {
        return Err("a 32-bit read past the end succeeded".into());
    }
    if rd.skip_bits((left + extra) as u32).is_ok() {
        return Err("the over-long skip succeeded".into());
    }
    // everything that was left must still come out, in order
    let mut at = pos;
    while at < bits.len() {
        let w = (bits.len() - at).min(13);
        let want = val_of(&bits[at..at + w]);
        match rd.read_bits::<u32>(w as u32) {
            Ok(v) if v as u64 == want => at += w,
            other => return Err(format!("after the refused request the {w} bits at position {at} come out as {:?}, the source has {want:#x}", other.map_err(|e| format!("{e:?}")))),
        }
    }
    if rd.read_bits::<u8>(1).is_ok() {
        return Err("a bit was delivered beyond the end of the source".into());
    }
    Ok(())
}

fn overlong_skip_sweep(rep: &Report) {
    let lens: Vec<usize> = (1..=20).chain([31, 32, 33, 63, 64, 65, 70, 100, 127, 128, 129, 130, 191, 192, 193, 200]).collect();
    let cases: Vec<(usize, usize)> = lens.iter().flat_map(|&l| [0usize, 1, 7, 8, 13, 64, 8 * (l / 2) + 3].into_iter().filter(move |&p| p < 8 * l).map(move |p| (l, p))).collect();
    let n = std::sync::atomic::AtomicU64::new(0);
    cases.par_iter().for_each(|&(len, pos)| {
        let data: Vec<u8> = (0..len).map(|i| (i as u8).wrapping_mul(0x6D) ^ 0xB4).collect();
        let bits = bits_of(&data);
        for extra in [1usize, 2, 7, 8, 9, 17, 63, 64, 65, 255, 256, 504, 505, 511, 512, 513, 520, 1000, 1023, 1024, 4095, 4096, 4097, 70000] {
            for variant in 0..3usize {
                n.fetch_add(1, std::sync::atomic::Ordering::Relaxed);
                // variant 2 reads through a source that answers with short counts
                let r = if variant == 2 {
                    overlong_case(H263Reader::from_source(Chunky { data: &data, pos: 0, calls: 0, pattern: CHUNK_PATTERNS[1 + (len + pos) % 3] }), &bits, pos, extra, variant)
                } else {
                    overlong_case(H263Reader::from_source(&data[..]), &bits, pos, extra, variant)
                };
                if let Err(what) = r {
                    rep.violation_lazy("C14/overlong-request-consumed-input", || {
                        (format!("source of {len} bytes (byte i = i * 0x6D ^ 0xB4), position {pos}, skip of {} bits ({extra} more than remain), variant {variant}: {what}", bits.len() - pos + extra), json!({"kind": "reader-overlong", "len": len, "pos": pos, "extra": extra, "variant": variant}))
                    });
                }
            }
        }
    });
    let n = n.into_inner();
    rep.add_states(n);
    rep.add_transitions(4 * n);
    rep.extra("overlong_request_cases", json!(n));
}

const FAULT_PRIMS: [Prim; 12] = [Prim::Read32(1), Prim::Read32(9), Prim::Read32(17), Prim::Read32(32), Prim::Peek32(25), Prim::Skip(13), Prim::Signed16(11), Prim::ReadU8, Prim::Sc(false), Prim::Sc(true), Prim::Vlc(0), Prim::Umv];
const FAULT_KINDS: [std::io::ErrorKind; 3] = [std::io::ErrorKind::Interrupted, std::io::ErrorKind::WouldBlock, std::io::ErrorKind::Other];

/// One case of the source-answer sweep: two primitives on a source whose `fault.0`-th `read` call
/// answers with an error of kind `fault.1` and which hands over at most `chunk` bytes per call.
fn fault_case(data: &[u8], a: Prim, b: Prim, fault: Option<(usize, std::io::ErrorKind)>, chunk: usize, tabs: &[Vec<Entry<u8>>; 3]) -> Result<(), String> {
    fault_case2(data, a, b, fault, None, chunk, tabs)
}

/// The same with a second departure: a later `read` call answers with an error as well.
fn fault_case2(data: &[u8], a: Prim, b: Prim, fault: Option<(usize, std::io::ErrorKind)>, fault2: Option<(usize, std::io::ErrorKind)>, chunk: usize, tabs: &[Vec<Entry<u8>>; 3]) -> Result<(), String> {
    let bits = bits_of(data);
    let hard = [fault, fault2].iter().flatten().filter(|f| f.1 != std::io::ErrorKind::Interrupted).count();
    let mut retries_left = hard;
    let mut rd = H263Reader::from_source(FaultSrc { data, pos: 0, calls: 0, fail_at: fault, fail_again_at: fault2, chunk });
    let mut m = Model { bits: &bits, avail: bits.len(), pos: 0 };
    catch(|| -> Result<(), String> {
        for (step, p) in [a, b].into_iter().enumerate() {
            let before = m.pos;
            let acc = m.prim(p);
            let mut got = do_prim(&mut rd, p, tabs);
            while matches!(&got, Out::Other(_)) && retries_left > 0 {
                // an injected error surfaced: nothing may have been consumed, and the
                // repeated operation must now give the model's answer (VLC / UMV reads leave
                // the position undefined after an error, so they are re-run from a fresh reader)
                if matches!(p, Prim::Vlc(_) | Prim::Umv) {
                    return Ok(());
                }
                retries_left -= 1;
                got = do_prim(&mut rd, p, tabs);
            }
            if !acc.contains(&got) {
                return Err(format!("step {step} {p:?} at model position {before}: reader returned {got:?}, model allows {acc:?}"));
            }
            if got.failed() {
                m.pos = before;
                if matches!(p, Prim::Vlc(_) | Prim::Umv) {
                    return Ok(());
                }
            }
        }
        let mut gotbits = vec![];
        loop {
            match rd.read_bits::<u8>(1) {
                Ok(v) => gotbits.push(v == 1),
                Err(e) if e.is_eof_error() => break,
                Err(_) => continue, // the injected fault, if it had not fired yet
            }
            if gotbits.len() > bits.len() + 8 {
                return Err("drain delivers more bits than the source holds".into());
            }
        }
        if gotbits != bits[m.pos..] {
            let first = gotbits.iter().zip(&bits[m.pos..]).position(|(x, y)| x != y);
            return Err(format!("drain delivers {} bits, the source has {} left from position {} (first differing bit: {first:?})", gotbits.len(), bits.len() - m.pos, m.pos));
        }
        Ok(())
    })
    .unwrap_or_else(|pm| Err(format!("panic {pm}")))
}

fn source_fault_sweep(rep: &Report, tier: Tier) {
    let prims = FAULT_PRIMS;
    let srcs: Vec<Vec<u8>> = vec![
        vec![0xA5, 0x3C, 0x96, 0x0F, 0xF0, 0x69, 0xC3, 0x5A, 0x81, 0x7E],
        vec![0xFF, 0x00, 0x00, 0x80, 0x12, 0x00, 0x00, 0x80, 0x01, 0x55],
        vec![0x00, 0x00, 0x40, 0x00, 0x00, 0x2A, 0xAA, 0xA0],
    ];
    let kinds = FAULT_KINDS;
    let tabs = tables();
    let mut work = vec![];
    for (si, _) in srcs.iter().enumerate() {
        for a in 0..prims.len() {
            for b in 0..prims.len() {
                work.push((si, a, b));
            }
        }
    }
    let n: u64 = work
        .par_iter()
        .map(|&(si, a, b)| {
            let data = &srcs[si];
            let mut count = 0u64;
            let faults: Vec<Option<(usize, std::io::ErrorKind)>> = std::iter::once(None).chain((0..=data.len() + 1).flat_map(|k| kinds.iter().map(move |kd| Some((k, *kd))))).collect();
            for fault in &faults {
                // short reads are legal answers too, and an error may follow a short read inside one
                // top-up of the buffer: every fault position is tried under every delivery size
                for chunk in [usize::MAX, 1, 2, 3] {
                    if chunk == 3 && !tier.thorough() {
                        continue;
                    }
                    count += 1;
                    // a second departure later on (every later call, the two kinds a caller retries after)
                    if let Some(f1) = fault {
                        if chunk == usize::MAX || chunk == 1 {
                            for k2 in f1.0 + 1..=data.len() + 2 {
                                for kd2 in [std::io::ErrorKind::WouldBlock, std::io::ErrorKind::Interrupted] {
                                    count += 1;
                                    if let Err(e) = fault_case2(data, prims[a], prims[b], *fault, Some((k2, kd2)), chunk, &tabs) {
                                        let class = if e.contains("panic") { panic_sig(e.split("panic ").nth(1).unwrap_or(&e)) } else { "C14/source-answers-two-errors".to_string() };
                                        let kind_ix = kinds.iter().position(|k| *k == f1.1).unwrap_or(0);
                                        rep.violation(&class, format!("source {} delivering {} per read, calls {} and {k2} answer {:?} and {kd2:?}: [{:?}, {:?}]: {e}", hex(data), if chunk == usize::MAX { "everything asked for".to_string() } else { format!("at most {chunk} byte(s)") }, f1.0, f1.1, prims[a], prims[b]), json!({"kind": "reader-fault", "source": hex(data), "chunk": if chunk == usize::MAX { 0 } else { chunk }, "fault_call": f1.0, "fault_kind_index": kind_ix, "second_fault_call": k2, "second_fault_kind_index": if kd2 == std::io::ErrorKind::WouldBlock { 1 } else { 0 }, "op_indices": [a, b], "ops": [format!("{:?}", prims[a]), format!("{:?}", prims[b])], "error": e}));
                                    }
                                }
                            }
                        }
                    }
                    if let Err(e) = fault_case(data, prims[a], prims[b], *fault, chunk, &tabs) {
                        let class = if e.contains("panic") { panic_sig(e.split("panic ").nth(1).unwrap_or(&e)) } else { format!("C14/source-answer-{}", match fault { None => "chunked".to_string(), Some((_, k)) => format!("{k:?}") }) };
                        let kind_ix = fault.map(|f| kinds.iter().position(|k| *k == f.1).unwrap_or(0));
                        rep.violation(&class, format!("source {} delivering {} per read, fault {:?}: [{:?}, {:?}]: {e}", hex(data), if chunk == usize::MAX { "everything asked for".to_string() } else { format!("at most {chunk} byte(s)") }, fault, prims[a], prims[b]), json!({"kind": "reader-fault", "source": hex(data), "chunk": if chunk == usize::MAX { 0 } else { chunk }, "fault": format!("{fault:?}"), "fault_call": fault.map(|f| f.0), "fault_kind_index": kind_ix, "op_indices": [a, b], "ops": [format!("{:?}", prims[a]), format!("{:?}", prims[b])], "error": e}));
                    }
                }
            }
            count
        })
        .sum();
    rep.add_transitions(2 * n);
    rep.add_states(n);
    rep.extra("source_answer_cases", json!(n));
}

/// byte `i` of the long pseudo-random source
fn long_byte(i: usize) -> u8 {
    let x = (i as u64).wrapping_mul(0x9E37_79B9_7F4A_7C15);
    (x >> 29) as u8 ^ (x >> 53) as u8
}
fn long_bits(pos: usize, n: usize) -> u64 {
    (0..n).fold(0u64, |a, j| {
        let p = pos + j;
        (a << 1) | ((long_byte(p / 8) >> (7 - p % 8)) & 1) as u64
    })
}

/// Source that answers every request with at most `pattern[i % len]` bytes (short reads are legal
/// for `Read`: fewer bytes than asked for does not mean the end).
struct Chunky<'a> {
    data: &'a [u8],
    pos: usize,
    calls: usize,
    pattern: &'static [usize],
}
impl Read for Chunky<'_> {
    fn read(&mut self, buf: &mut [u8]) -> std::io::Result<usize> {
        let lim = self.pattern[self.calls % self.pattern.len()];
        self.calls += 1;
        let n = buf.len().min(self.data.len() - self.pos).min(lim);
        buf[..n].copy_from_slice(&self.data[self.pos..self.pos + n]);
        self.pos += n;
        Ok(n)
    }
}
const CHUNK_PATTERNS: [&[usize]; 4] = [&[usize::MAX], &[1], &[4096, 100, 5000, 1, 4095, 70000], &[3, 1 << 20, 7]];

/// One case of the long-range sweep; `Err` describes the first disagreement with the model.
fn long_case(data: &[u8], pre: u32, n: u32, variant: usize) -> Result<(), String> {
    let total = data.len() * 8;
    // variants 5.. repeat variant 0 on sources that deliver short counts
    let (variant, pattern) = if variant >= 5 { (0, CHUNK_PATTERNS[variant - 4]) } else { (variant, CHUNK_PATTERNS[0]) };
    let mut rd = H263Reader::from_source(Chunky { data, pos: 0, calls: 0, pattern });
    catch(|| -> Result<(), String> {
        rd.skip_bits(pre).map_err(|e| format!("skip_bits({pre}) failed: {e:?}"))?;
        let target = pre as usize + n as usize;
        let r = rd.skip_bits(n);
        if target > total {
            if !matches!(&r, Err(e) if e.is_eof_error()) {
                return Err(format!("skip_bits({n}) past the end of a {total}-bit source returned {r:?}"));
            }
            // the failed skip must not have moved the position
            let got = rd.read_bits::<u32>(13).map_err(|e| format!("read after the failed skip: {e:?}"))? as u64;
            let exp = long_bits(pre as usize, 13);
            return if got == exp { Ok(()) } else { Err(format!("after the failed skip the next 13 bits are {got:#x}, the source has {exp:#x} at bit {pre}")) };
        }
        r.map_err(|e| format!("skip_bits({n}) from bit {pre} of a {total}-bit source failed: {e:?}"))?;
        if variant >= 4 {
            // the same skip and reads inside a transaction that then fails: everything is undone
            let mut rd = H263Reader::from_source(data);
            rd.skip_bits(pre).map_err(|e| format!("skip_bits({pre}) failed: {e:?}"))?;
            let r: Result<(), Error> = rd.with_transaction(|rd| {
                rd.skip_bits(n)?;
                for w in [13u32, 8, 1, 32, 7] {
                    let _ = rd.read_bits::<u32>(w);
                }
                Err(Error::InvalidBitstream)
            });
            if !matches!(r, Err(Error::InvalidBitstream)) {
                return Err(format!("failing transaction around skip_bits({n}) returned {r:?}"));
            }
            let (_, bitpos) = rd.verif_state();
            let got = rd.read_bits::<u32>(13).map_err(|e| format!("read after the failed transaction: {e:?}"))? as u64;
            let exp = long_bits(pre as usize, 13);
            if bitpos != pre as usize || got != exp {
                return Err(format!("after a failed transaction around skip_bits({n}) the reader is at bit {bitpos} and delivers {got:#x}; it started at bit {pre} where the source has {exp:#x}"));
            }
            // and the whole stretch can be consumed again
            rd.skip_bits(n - 13).map_err(|e| format!("second skip after the failed transaction: {e:?}"))?;
            let got = rd.read_bits::<u32>(9).map_err(|e| format!("read after the second skip: {e:?}"))? as u64;
            let exp = long_bits(target, 9);
            return if got == exp { Ok(()) } else { Err(format!("after failed transaction and a second skip_bits the 9 bits at {target} are {got:#x}, the source has {exp:#x}")) };
        }
        let mut pos = target;
        let orders: [[usize; 4]; 4] = [[13, 8, 1, 32], [8, 13, 32, 1], [32, 1, 8, 13], [1, 7, 16, 8]];
        for w in orders[variant % 4] {
            if pos + w > total {
                break;
            }
            let got = if w == 8 && variant != 3 { rd.read_u8().map(|v| v as u64) } else { rd.read_bits::<u32>(w as u32).map(|v| v as u64) }.map_err(|e| format!("{w}-bit read at bit {pos} after skip_bits({n}): {e:?}"))?;
            let exp = long_bits(pos, w);
            if got != exp {
                return Err(format!("{w}-bit read at bit {pos} after skip_bits({n}) returned {got:#x}, the source has {exp:#x}"));
            }
            pos += w;
        }
        let (buffered, bitpos) = rd.verif_state();
        if bitpos != pos || buffered * 8 < pos {
            return Err(format!("reader state after skip_bits({n}) and reads: bit position {bitpos}, {buffered} bytes buffered; model position {pos}"));
        }
        Ok(())
    })
    .unwrap_or_else(|pm| Err(format!("panic {pm}")))
}

/// Scale: single skips around every power of two, on a source large enough to satisfy them.
fn long_range_sweep(rep: &Report, tier: Tier) {
    let kmax = if tier.thorough() { 28 } else { 25 };
    let data: Vec<u8> = (0..(1usize << (kmax - 3)) + 64).into_par_iter().map(long_byte).collect();
    let mut cases: Vec<(u32, u32, usize)> = vec![];
    for k in 3..=kmax {
        for d in -9i64..=9 {
            for pre in [0u32, 3, 8] {
                for v in 0..8 {
                    if v == 4 && (d.abs() > 1 || k < 13) {
                        continue;
                    }
                    // short-count sources: the one-byte source only for moderate lengths
                    if v >= 5 && (d.abs() > 1 || k < 10 || (v == 5 && k > 20)) {
                        continue;
                    }
                    cases.push((pre, ((1i64 << k) + d) as u32, v));
                }
            }
        }
    }
    // beyond the end of this source and near the limits of the argument type
    for n in [(data.len() * 8) as u32, (data.len() * 8 + 1) as u32, 1 << 30, (1 << 31) - 1, 1 << 31, (1 << 31) + 1, u32::MAX - 8, u32::MAX - 7, u32::MAX - 1, u32::MAX] {
        for pre in [0u32, 3, 8] {
            cases.push((pre, n, 0));
        }
    }
    cases.par_iter().for_each(|&(pre, n, v)| {
        if let Err(e) = long_case(&data, pre, n, v) {
            let class = if e.contains("panic") { panic_sig(e.split("panic ").nth(1).unwrap_or(&e)) } else { "C14/long-skip".to_string() };
            rep.violation(&class, format!("long source ({} bytes): skip_bits({pre}), skip_bits({n}): {e}", data.len()), json!({"kind": "reader-long", "source_bytes": data.len(), "pre": pre, "skip": n, "variant": v, "error": e}));
        }
    });
    rep.add_transitions(cases.len() as u64);
    rep.add_states(cases.len() as u64);
    rep.extra("long_range_cases", json!(cases.len()));
}

pub fn replay(case: &serde_json::Value) {
    if case["kind"] == "reader-type" {
        let data = crate::bits::unhex(case["source"].as_str().unwrap_or(""));
        let (phase, n) = (case["phase"].as_u64().unwrap_or(0) as u32, case["width"].as_u64().unwrap_or(0) as u32);
        let ty = case["type"].as_str().unwrap_or("u32").to_string();
        macro_rules! show {
            ($t:ty, $u:ty) => {{
                let mut rd = H263Reader::from_source(&data[..]);
                let _ = rd.skip_bits(phase);
                let pk = rd.peek_bits::<$t>(n).map(|v| format!("{:#x}", v as $u));
                let r = rd.read_bits::<$t>(n).map(|v| format!("{:#x}", v as $u));
                let nx = rd.read_bits::<u8>(8);
                let mut rd = H263Reader::from_source(&data[..]);
                let _ = rd.skip_bits(phase);
                let sg = rd.read_signed_bits::<$t>(n).map(|v| format!("{:#x}", v as $u));
                println!("source {} skip_bits({phase}); peek_bits::<{ty}>({n}) -> {pk:?}; read_bits::<{ty}>({n}) -> {r:?}; next byte -> {nx:?}; fresh reader: read_signed_bits::<{ty}>({n}) -> {sg:?}", hex(&data));
            }};
        }
        match ty.as_str() {
            "u8" => show!(u8, u8),
            "u16" => show!(u16, u16),
            "u64" => show!(u64, u64),
            "u128" => show!(u128, u128),
            "usize" => show!(usize, usize),
            "i16" => show!(i16, u16),
            "i32" => show!(i32, u32),
            "i64" => show!(i64, u64),
            "i128" => show!(i128, u128),
            "isize" => show!(isize, usize),
            _ => show!(u32, u32),
        }
        return;
    }
    if case["kind"] == "reader-fault" {
        let data = crate::bits::unhex(case["source"].as_str().unwrap_or(""));
        let ix: Vec<usize> = case["op_indices"].as_array().map(|a| a.iter().map(|v| v.as_u64().unwrap_or(0) as usize % FAULT_PRIMS.len()).collect()).unwrap_or_default();
        let (a, b) = (FAULT_PRIMS[*ix.first().unwrap_or(&0)], FAULT_PRIMS[*ix.get(1).unwrap_or(&0)]);
        let fault = case["fault_call"].as_u64().map(|k| (k as usize, FAULT_KINDS[case["fault_kind_index"].as_u64().unwrap_or(1) as usize % 3]));
        let chunk = match case["chunk"].as_u64().unwrap_or(0) { 0 => usize::MAX, c => c as usize };
        let fault2 = case["second_fault_call"].as_u64().map(|k| (k as usize, FAULT_KINDS[case["second_fault_kind_index"].as_u64().unwrap_or(1) as usize % 3]));
        println!("source {} handing over at most {chunk} byte(s) per call, calls {fault:?} {fault2:?} answer with an error: [{a:?}, {b:?}] then drain -> {:?}", hex(&data), fault_case2(&data, a, b, fault, fault2, chunk, &tables()));
        return;
    }
    if case["kind"] == "reader-overlong" {
        let (len, pos, extra, variant) = (case["len"].as_u64().unwrap_or(1) as usize, case["pos"].as_u64().unwrap_or(0) as usize, case["extra"].as_u64().unwrap_or(1) as usize, case["variant"].as_u64().unwrap_or(0) as usize);
        let data: Vec<u8> = (0..len).map(|i| (i as u8).wrapping_mul(0x6D) ^ 0xB4).collect();
        let bits = bits_of(&data);
        println!("source of {len} bytes, position {pos}, skip of {} bits, variant {variant}: {:?}", bits.len() - pos + extra, overlong_case(H263Reader::from_source(&data[..]), &bits, pos, extra, variant));
        return;
    }
    if case["kind"] == "reader-sc" {
        let data = crate::bits::unhex(case["source"].as_str().unwrap_or(""));
        let (k, s, ie) = (case["look_ahead_bits"].as_u64().unwrap_or(0) as u32, case["skip"].as_u64().unwrap_or(0) as u32, case["in_error"].as_bool().unwrap_or(true));
        let mut rd = H263Reader::from_source(&data[..]);
        if k > 0 {
            let _: Result<(), Error> = rd.with_lookahead(|r| r.skip_bits(k));
        }
        let _ = rd.skip_bits(s);
        println!("source {} (start code written at bit {}): look-ahead of {k} bits, skip_bits({s}), recognize_start_code({ie}) -> {:?}, then recognize_start_code(true) -> {:?}", hex(&data), case["start_code_at_bit"], rd.recognize_start_code(ie), rd.recognize_start_code(true));
        return;
    }
    if case["kind"] == "reader-long" {
        let n = case["source_bytes"].as_u64().unwrap_or(0) as usize;
        let data: Vec<u8> = (0..n).map(long_byte).collect();
        let (pre, skip) = (case["pre"].as_u64().unwrap_or(0) as u32, case["skip"].as_u64().unwrap_or(0) as u32);
        println!("long source of {n} bytes (byte i = long_byte(i)): skip_bits({pre}), skip_bits({skip}) -> {:?}", long_case(&data, pre, skip, case["variant"].as_u64().unwrap_or(0) as usize));
        return;
    }
    let data = crate::bits::unhex(case["source"].as_str().unwrap_or(""));
    let avail = case["initially_available"].as_u64().map(|v| v as usize).unwrap_or(data.len());
    let Some(idx) = case["op_indices"].as_array() else {
        println!("one-step case: source {} history {}", case["source"], case["history"]);
        return;
    };
    let tier = if case["thorough_alphabet"].as_bool().unwrap_or(false) { Tier::Thorough } else { Tier::Quick };
    let ops = build_ops(tier);
    let bits = bits_of(&data);
    let h = Harness { data: &data, bits: &bits, initial_avail: avail, tabs: tables() };
    let hist: Vec<&Op> = idx.iter().map(|i| &ops[i.as_u64().unwrap() as usize]).collect();
    for n in 1..=hist.len() {
        match h.run(&hist[..n], false) {
            Ok((k, pos, _)) => println!("after {:?}: reader state (pulled, buffered, bit offset, grown) = {k:?}, model position {pos}", hist[n - 1]),
            Err(e) => {
                println!("step {}: {e}", n - 1);
                return;
            }
        }
    }
    match h.run(&hist, true) {
        Ok(_) => println!("drain probe: the remaining bits come out exactly once, in order"),
        Err(e) => println!("drain probe: {e}"),
    }
}
