//! C05: a failed decode changes nothing and can be retried (every reachable state x every failure
//! site x every continuation; every byte split of every valid picture).

use super::common::*;
use super::refgraph::*;
use crate::bits::{hex, BitWriter};
use crate::evidence::{panic_sig, Report, Tier};
use crate::refdec::CmpStats;
use crate::refhdr::{SHdr, SSize, StdHdr};
use crate::syntax::*;
use crate::util::*;
use h263_rs::parser::H263Reader;
use rayon::prelude::*;
use serde_json::json;
use std::cell::RefCell;
use std::collections::BTreeMap;
use std::io::Read;
use std::rc::Rc;
use std::sync::Mutex;

struct Grow(Rc<RefCell<Vec<u8>>>, usize);
impl Read for Grow {
    fn read(&mut self, buf: &mut [u8]) -> std::io::Result<usize> {
        let d = self.0.borrow();
        let n = buf.len().min(d.len() - self.1);
        buf[..n].copy_from_slice(&d[self.1..self.1 + n]);
        self.1 += n;
        Ok(n)
    }
}

/// Source that answers its `fail_at`-th byte request with `WouldBlock` once.
struct Blocky<'a> {
    data: &'a [u8],
    pos: usize,
    fail_at: usize,
    fired: bool,
}
impl Read for Blocky<'_> {
    fn read(&mut self, buf: &mut [u8]) -> std::io::Result<usize> {
        if !self.fired && self.pos >= self.fail_at {
            self.fired = true;
            return Err(std::io::Error::new(std::io::ErrorKind::WouldBlock, "injected"));
        }
        let n = buf.len().min(self.data.len() - self.pos).min(self.fail_at.saturating_sub(self.pos).max(1));
        buf[..n].copy_from_slice(&self.data[self.pos..self.pos + n]);
        self.pos += n;
        Ok(n)
    }
}

fn code_str(c: (u32, u32)) -> String {
    (0..c.1).rev().map(|i| if (c.0 >> i) & 1 == 1 { '1' } else { '0' }).collect()
}

fn bits(s: &str) -> Vec<bool> {
    s.chars().filter(|c| *c == '0' || *c == '1').map(|c| c == '1').collect()
}

/// Failing inputs: (site name, bytes). Headers carry options (deblocking flag / PTYPE option bits)
/// so that an early update of the carried-over options would change the state key.
fn failure_sites(sorenson: bool) -> Vec<(String, Vec<u8>)> {
    let mut v: Vec<(String, Vec<u8>)> = vec![];
    let good_mb = || Mb::intra_flat(DC[1]);
    let hdr = |ptype: u8| -> Hdr {
        if sorenson {
            Hdr::S(SHdr { version: 1, tr: 77, size: SSize::auto(32, 16), ptype, deblock: true, q: 9, pei: vec![0x5A] })
        } else {
            let mut h = StdHdr::custom(32, 16, ptype != 0, 77, 9);
            h.split = true;
            h.freeze = true;
            if let Some(p) = &mut h.plus {
                p.rtype = true;
                p.opp.modes = 0b0000_1000_00; // deblocking filter mode bit: an OPPTYPE option
            }
            h.pei = vec![0x5A];
            Hdr::Std(h)
        }
    };
    let enc = |p: &Pic, tail: &[u8]| {
        let mut b = encode_bytes(p);
        b.extend_from_slice(tail);
        b
    };
    v.push(("no start code".into(), vec![0x12, 0x34, 0x56, 0x78, 0x9A, 0xBC]));
    v.push(("empty input".into(), vec![]));
    let good = enc(&Pic { hdr: hdr(0), mbs: vec![good_mb(), good_mb()] }, &[]);
    for cut in 1..=7usize {
        v.push((format!("header truncated to {cut} byte(s)"), good[..cut.min(good.len())].to_vec()));
    }
    if sorenson {
        let mut w = BitWriter::new();
        SHdr { version: 0, tr: 7, size: SSize::Code(7), ptype: 0, deblock: true, q: 5, pei: vec![] }.put(&mut w);
        w.put(0xFFFF, 16);
        v.push(("reserved size code".into(), w.bytes));
        v.push(("reserved picture type 3, first macroblock coded".into(), enc(&Pic { hdr: hdr(3), mbs: vec![Mb::Raw(bits("0 1 0011"))] }, &[0x40, 0x40, 0x40, 0x40, 0x40, 0x40])));
    } else {
        let mut h = StdHdr::custom(32, 16, false, 7, 5);
        h.hi2 = 1;
        let mut w = BitWriter::new();
        h.put(&mut w, false, 0);
        w.put(0xFFFF, 16);
        v.push(("wrong PTYPE marker".into(), w.bytes));
        let mut h = StdHdr::custom(32, 16, false, 7, 5);
        h.plus.as_mut().unwrap().opp.srcfmt = 7;
        let mut w = BitWriter::new();
        h.put(&mut w, false, 0);
        w.put(0xFFFF, 16);
        v.push(("reserved source format".into(), w.bytes));
        for t in [2u8, 3, 4, 5] {
            let mut h = StdHdr::custom(32, 16, true, 7, 5);
            h.plus.as_mut().unwrap().mpp_type = t;
            let mut w = BitWriter::new();
            h.put(&mut w, false, 0);
            w.put(0x4040, 16);
            w.put(0x40404040, 32);
            v.push((format!("unsupported picture type {t}"), w.bytes));
        }
    }
    // macroblock- and block-level faults after k good macroblocks, in I and P pictures
    let faults: Vec<(&str, &str, &str)> = vec![
        // (name, bits for an I picture, bits for a P picture)
        ("invalid MCBPC", "000000000 0000000", "0 000000000 0000000"),
        ("invalid CBPY", "1 000000 000000", "0 00011 000000 000000"),
        ("INTRADC 0", "1 0011 00000000", "0 00011 0011 00000000"),
        ("INTRADC 128", "1 0011 10000000", "0 00011 0011 10000000"),
        ("invalid short TCOEF", "1 00010 00110011 000000000 0000", "0 00011 00010 00110011 000000000 0000"),
        (
            "escape level 0",
            if sorenson { "1 00010 00110011 0000011 0 1 000000 0000000" } else { "1 00010 00110011 0000011 1 000000 00000000" },
            if sorenson { "0 00011 00010 00110011 0000011 0 1 000000 0000000" } else { "0 00011 00010 00110011 0000011 1 000000 00000000" },
        ),
        ("invalid MVD", "", "0 1 11 0000000000000 1"),
    ];
    for (name, ibits, pbits) in &faults {
        for k in 0..2usize {
            for (ptype, fb) in [(0u8, ibits), (1u8, pbits)] {
                if fb.is_empty() {
                    continue;
                }
                let mut mbs: Vec<Mb> = (0..k).map(|_| good_mb()).collect();
                mbs.push(Mb::Raw(bits(fb)));
                v.push((format!("{name} in macroblock {k} of {} picture", if ptype == 0 { "an I" } else { "a P" }), enc(&Pic { hdr: hdr(ptype), mbs }, &[0, 0])));
            }
        }
    }
    // the same faults in pictures of another size than anything the state graph stores (a key frame
    // that announces a new size and then fails below its header must leave the stored pictures alone)
    for &(w, h) in &[(16u16, 16u16), (48, 32)] {
        let sized = |ptype: u8| -> Hdr {
            if sorenson {
                Hdr::S(SHdr { version: 0, tr: 91, size: SSize::auto(w, h), ptype, deblock: false, q: 9, pei: vec![] })
            } else {
                Hdr::Std(StdHdr::custom(w, h, ptype != 0, 91, 9))
            }
        };
        for (name, ibits, pbits) in faults.iter().filter(|f| ["invalid MCBPC", "INTRADC 0"].contains(&f.0)) {
            for k in 0..2usize {
                let types: &[u8] = if sorenson { &[0, 1, 2] } else { &[0, 1] };
                for &ptype in types {
                    if ptype != 0 && k == 0 {
                        continue;
                    }
                    let fb = if ptype == 0 { ibits } else { pbits };
                    let mut mbs: Vec<Mb> = (0..k).map(|_| good_mb()).collect();
                    mbs.push(Mb::Raw(bits(fb)));
                    v.push((format!("{name} in macroblock {k} of a {w}x{h} picture of type {ptype}"), enc(&Pic { hdr: sized(ptype), mbs }, &[0, 0])));
                }
            }
        }
        // data ending inside the second macroblock of a key frame of that size
        let full = enc(&Pic { hdr: sized(0), mbs: vec![good_mb(), good_mb()] }, &[]);
        v.push((format!("{w}x{h} key frame cut inside its second macroblock"), full[..full.len() - 3].to_vec()));
    }
    // faults in a later block of a macroblock, after earlier blocks of the same macroblock have
    // been dequantised and stored (bright DC + AC data), in the first and in the second macroblock
    for k in 0..2usize {
        for blk in [1usize, 3, 5] {
            for (ptype, head) in [(0u8, "1"), (1u8, "0 00011")] {
                // INTRA, CBPY with all four luma blocks coded (pattern 1111 = index 15), cbpc 00
                let mut fb = format!("{head} 11 ");
                for b in 0..blk {
                    fb.push_str("11111010 ");
                    if b < 4 {
                        // one AC event (last, run 0, level 1, positive): a non-trivial stored block
                        fb.push_str(&format!("{} 0 ", code_str(crate::tables::TCOEF_VLC[58])));
                    }
                }
                fb.push_str("00000000 0000");
                let mut mbs: Vec<Mb> = (0..k).map(|_| good_mb()).collect();
                mbs.push(Mb::Raw(bits(&fb)));
                v.push((format!("INTRADC 0 in block {blk} of macroblock {k} of {} picture (earlier blocks stored)", if ptype == 0 { "an I" } else { "a P" }), enc(&Pic { hdr: hdr(ptype), mbs }, &[0, 0])));
            }
        }
    }
    // prediction-level: everything parses, the failure comes from the reference
    v.push(("P picture, all not coded (fails in prediction when there is no reference)".into(), enc(&Pic { hdr: hdr(1), mbs: vec![Mb::NotCoded, Mb::NotCoded] }, &[])));
    if sorenson {
        v.push(("D picture, all not coded".into(), enc(&Pic { hdr: hdr(2), mbs: vec![Mb::NotCoded, Mb::NotCoded] }, &[])));
        v.push((
            "P picture of another size than the reference (fails in prediction)".into(),
            enc(&Pic { hdr: Hdr::S(SHdr { version: 0, tr: 78, size: SSize::auto(16, 16), ptype: 1, deblock: true, q: 9, pei: vec![] }), mbs: vec![Mb::inter((1, 1))] }, &[]),
        ));
        v.push((
            "P picture larger than the reference (fails in prediction)".into(),
            enc(&Pic { hdr: Hdr::S(SHdr { version: 0, tr: 79, size: SSize::auto(48, 32), ptype: 1, deblock: true, q: 9, pei: vec![] }), mbs: vec![Mb::inter((-3, 2)), Mb::NotCoded, Mb::inter((0, 5))] }, &[]),
        ));
        // pictures of another size that end early at a macroblock boundary: nothing in the data is
        // invalid, the missing macroblocks are to be copied from a reference that has another size -
        // the failure comes from the very last step (I, P and D; header only and after one macroblock;
        // smaller and larger than the stored pictures)
        for (w, h) in [(16u16, 16u16), (48, 32), (16, 32)] {
            for ptype in [0u8, 1, 2] {
                for k in 0..2usize {
                    let mb = if ptype == 0 { Mb::intra_flat(DC[2]) } else { Mb::inter((1, -1)) };
                    let mbs: Vec<Mb> = (0..k).map(|_| mb.clone()).collect();
                    v.push((
                        format!("type-{ptype} picture of another size ({w}x{h}) ending after {k} macroblocks (source ends here)"),
                        enc(&Pic { hdr: Hdr::S(SHdr { version: 0, tr: 80 + k as u8, size: SSize::auto(w, h), ptype, deblock: false, q: 9, pei: vec![] }), mbs }, &[]),
                    ));
                }
            }
        }
    }
    v
}

/// Thorough tier: every complete-macroblock letter of the C01 grammar (valid and invalid) as the
/// first or second macroblock of an I and of a P picture. Whether a letter fails is not assumed:
/// the property is conditional on Err.
fn grammar_sites(sorenson: bool) -> Vec<(String, Vec<u8>)> {
    use super::crash::{letters_i, letters_p, Stream};
    let mut v = vec![];
    let streams: Vec<Stream> = if sorenson { vec![Stream::SorV0, Stream::SorV1] } else { vec![Stream::Std] };
    for st in streams {
        for ptype in [0u8, 1] {
            let letters = if ptype == 0 { letters_i(st) } else { letters_p(st) };
            let hdr = match st {
                Stream::SorV0 => Hdr::S(SHdr { version: 0, tr: 91, size: SSize::auto(32, 16), ptype, deblock: true, q: 31, pei: vec![] }),
                Stream::SorV1 => Hdr::S(SHdr { version: 1, tr: 92, size: SSize::auto(32, 16), ptype, deblock: true, q: 31, pei: vec![7] }),
                Stream::Std => {
                    let mut h = StdHdr::custom(32, 16, ptype != 0, 93, 31);
                    h.freeze = true;
                    Hdr::Std(h)
                }
            };
            for (name, bits) in letters.iter().skip(1) {
                for k in 0..2usize {
                    let mut mbs: Vec<Mb> = (0..k).map(|_| Mb::Raw(letters[0].1.clone())).collect();
                    mbs.push(Mb::Raw(bits.clone()));
                    let mut b = encode_bytes(&Pic { hdr: hdr.clone(), mbs });
                    b.extend_from_slice(&[0, 0]);
                    v.push((format!("grammar letter {name} as macroblock {k} of a {st:?} type-{ptype} picture"), b));
                }
            }
        }
    }
    v
}

/// Every single-bit corruption of a few valid base pictures (header, macroblock headers, vectors,
/// coefficients, stuffing): whether a variant fails, and how deep, is left to the decoder - the
/// property is conditional on Err. The names end in " to bit k" so that one signature covers a base.
fn bitflip_sites(sorenson: bool, seed: u64) -> Vec<(String, Vec<u8>)> {
    use super::inter::{fix_last_flags, mbs_for, Spec};
    let mut bases: Vec<(&str, Vec<u8>)> = vec![];
    let p_pic = |hdr: Hdr, specs: &[Spec]| -> Vec<u8> {
        let v1 = hdr.v1();
        let mut p = Pic { hdr, mbs: mbs_for(specs, 2, v1, true) };
        fix_last_flags(&mut p);
        encode_bytes(&p)
    };
    if sorenson {
        bases.push(("a Sorenson v0 I picture 32x16", encode_bytes(&super::inter::noise_intra(Hdr::S(SHdr { version: 0, tr: 60, size: SSize::auto(32, 16), ptype: 0, deblock: false, q: 6, pei: vec![] }), seed ^ 0x51))));
        bases.push(("a Sorenson v1 P picture 32x16 (one vector + four vectors with residual)", p_pic(Hdr::S(SHdr { version: 1, tr: 61, size: SSize::auto(32, 16), ptype: 1, deblock: true, q: 7, pei: vec![0x33] }), &[Spec::Inter((3, -2), true), Spec::Inter4V([(1, 1), (-2, 3), (4, -4), (0, 7)], true)])));
        bases.push(("a Sorenson v0 disposable picture 32x16 (intra + not coded)", p_pic(Hdr::S(SHdr { version: 0, tr: 62, size: SSize::auto(32, 16), ptype: 2, deblock: false, q: 5, pei: vec![] }), &[Spec::Intra, Spec::NotCoded])));
    } else {
        bases.push(("a standard-mode I picture 32x16 (PLUSPTYPE)", encode_bytes(&super::inter::noise_intra(Hdr::Std(StdHdr::custom(32, 16, false, 60, 6)), seed ^ 0x52))));
        bases.push(("a standard-mode P picture 32x16 (PLUSPTYPE, vector + intra)", p_pic(Hdr::Std(StdHdr::custom(32, 16, true, 61, 7)), &[Spec::Inter((-3, 2), true), Spec::Intra])));
    }
    let mut v = vec![];
    for (name, b) in bases {
        for k in 0..b.len() * 8 {
            let mut c = b.clone();
            c[k / 8] ^= 0x80 >> (k % 8);
            c.extend_from_slice(&[0, 0]);
            // a flipped size bit can declare a picture of gigabytes: the same exact pre-filter as in C01
            // (inputs declaring more than 2^22 pixels are outside the stated domain) keeps them out
            if super::crash::declared_pixels(&c, sorenson) > (1 << 22) {
                continue;
            }
            v.push((format!("single bit flipped in {name} to bit {k}"), c));
        }
    }
    v
}

fn drain<R: Read>(rd: &mut H263Reader<R>) -> Vec<bool> {
    let mut out = vec![];
    while let Ok(b) = rd.read_bits::<u8>(1) {
        out.push(b == 1);
        if out.len() > 1 << 20 {
            break;
        }
    }
    out
}

fn fail_checks(rep: &Report, world: &World, nodes: &[Node], sites: &[(String, Vec<u8>)], site_failed: &Mutex<BTreeMap<String, u64>>, with_continuations: bool) {
    let work: Vec<(usize, usize)> = (0..nodes.len()).flat_map(|n| (0..sites.len()).map(move |s| (n, s))).collect();
    work.par_iter().for_each(|&(n, si)| {
        let node = &nodes[n];
        let (name, f) = &sites[si];
        let labels = world.hist_labels(&node.hist);
        let mut replay_steps = world.replay_value(&node.hist, name);
        replay_steps["failing_input"] = json!(hex(f));
        let mut r = match world.run(&node.hist, "C05") {
            Ok(r) => r,
            Err(_) => return,
        };
        let key0 = state_key(&r.dec.st);
        let snap0 = last_snap(&r.dec.st);
        // the source: failing bytes followed by a sentinel that must still be readable afterwards
        let mut src = f.clone();
        // (sites whose point is that the data *ends* there carry no sentinel)
        if !name.contains("source ends here") {
            src.extend_from_slice(&[0xDE, 0xAD, 0xBE, 0xEF]);
        }
        let mut rd = H263Reader::from_source(&src[..]);
        let o = decode_with(&mut r.dec.st, &mut rd);
        rep.add_transitions(1);
        match o {
            Outcome::Panic(p) => {
                rep.violation(&panic_sig(&p), format!("state after {labels:?}, input '{name}': panic {p}"), replay_steps);
                return;
            }
            Outcome::Ok => return, // not a failing input in this state; the property is conditional on Err
            Outcome::Err(_) => {}
        }
        *site_failed.lock().unwrap().entry(name.clone()).or_insert(0) += 1;
        let class = name.split(" in macroblock").next().unwrap().split(" to ").next().unwrap().replace(' ', "-");
        if state_key(&r.dec.st) != key0 {
            let (a, b) = (key0.0.clone(), state_key(&r.dec.st).0);
            rep.violation(
                &format!("C05/state-changed-by-failed-call[{class}]"),
                format!("state after {labels:?}: '{name}' returned an error but the decoder state changed: (options,last,reference,running_options,keys) {a:?} -> {b:?}"),
                replay_steps,
            );
            return;
        }
        if last_snap(&r.dec.st) != snap0 {
            rep.violation(&format!("C05/last-picture-changed-by-failed-call[{class}]"), format!("state after {labels:?}: '{name}'"), replay_steps);
            return;
        }
        // (3) the reader is where it was: everything can be read again from the same reader
        let got = drain(&mut rd);
        if got != crate::bits::bits_of(&src) {
            rep.violation(
                &format!("C05/reader-not-rewound[{class}]"),
                format!("state after {labels:?}: after the failed call on '{name}' the same reader delivers {} bits, the source has {}", got.len(), src.len() * 8),
                replay_steps,
            );
            return;
        }
        // (3b) the same when the caller has consumed something through this reader before the call
        // (container framing, padding): the reader must come back to where the caller left it
        for (prefix, consume_bits) in [(vec![0x5Au8], 8u32), (vec![0xC3, 0x3C, 0x99], 24), (vec![0x5A, 0xC0], 12)] {
            let mut src2 = prefix.clone();
            src2.extend_from_slice(&src);
            let mut rd2 = H263Reader::from_source(&src2[..]);
            if rd2.skip_bits(consume_bits).is_err() {
                continue;
            }
            let o = decode_with(&mut r.dec.st, &mut rd2);
            rep.add_transitions(1);
            match o {
                Outcome::Panic(p) => {
                    rep.violation(&panic_sig(&p), format!("state after {labels:?}, input '{name}' after {consume_bits} consumed bits: panic {p}"), replay_steps.clone());
                    return;
                }
                Outcome::Ok => {
                    // behind this prefix the input is acceptable (a start code forms across the
                    // boundary): the state has changed legitimately; start again from the history
                    r = match world.run(&node.hist, "C05") {
                        Ok(x) => x,
                        Err(_) => return,
                    };
                    continue;
                }
                Outcome::Err(_) => {}
            }
            let got = drain(&mut rd2);
            let all = crate::bits::bits_of(&src2);
            if state_key(&r.dec.st) != key0 || got != all[consume_bits as usize..] {
                let mut rv = replay_steps.clone();
                rv["consumed_prefix"] = json!({"bytes": hex(&prefix), "bits": consume_bits});
                rep.violation(
                    &format!("C05/reader-not-rewound-after-consumed-prefix[{class}]"),
                    format!("state after {labels:?}: the caller consumed {consume_bits} bits, the call on '{name}' failed, and the reader then delivers {} bits where {} remain after the prefix (or the decoder state changed)", got.len(), all.len() - consume_bits as usize),
                    rv,
                );
                return;
            }
        }
        // failing twice changes nothing either
        // (the same bytes, sentinel included: whether an input fails can depend on what follows it)
        let o2 = decode_bytes(&mut r.dec.st, &src);
        rep.add_transitions(1);
        if !o2.is_err() || state_key(&r.dec.st) != key0 {
            rep.violation(&format!("C05/second-failure-differs[{class}]"), format!("state after {labels:?}: '{name}' repeated: {}", o2.short()), replay_steps);
            return;
        }
        // (4) every valid continuation behaves as on a twin that never saw the failing input
        if with_continuations {
            let mut stats = CmpStats::default();
            for (vi, _) in world.ops.iter().enumerate() {
                if si % 4 != vi % 4 && sites.len() > 12 {
                    continue; // each (site, continuation) residue class; all pairs over the site list
                }
                let mut a = match world.run(&node.hist, "C05") {
                    Ok(x) => x,
                    Err(_) => continue,
                };
                let _ = decode_bytes(&mut a.dec.st, &src);
                a.dec.fed.push(src.clone());
                let ra = world.apply(&mut a, vi, "C05", &mut stats);
                let mut h2 = node.hist.clone();
                h2.push(vi);
                let twin = world.run(&h2, "C05");
                rep.add_transitions(2);
                let same = match (&ra, &twin) {
                    (Ok(()), Ok(t)) => state_key(&a.dec.st) == state_key(&t.dec.st) && last_snap(&a.dec.st) == last_snap(&t.dec.st),
                    (Err(_), Err(_)) => true,
                    _ => false,
                };
                if !same {
                    rep.violation(
                        &format!("C05/continuation-differs-from-twin[{class}]"),
                        format!("state after {labels:?}: '{name}' then {} differs from the twin decoder that never saw the failing input ({})", world.ops[vi].label(), match ra { Err(f) => f.what, Ok(()) => "state/picture differ".into() }),
                        replay_steps,
                    );
                    return;
                }
            }
        }
    });
}

fn split_delivery(rep: &Report, tier: Tier) -> u64 {
    // base pictures: I / P / D, with and without PEI, three sizes, both modes
    let mut bases: Vec<(u8, Vec<Pic>, Pic)> = vec![]; // (options, history, picture)
    for &(w, h) in &[(16u16, 16u16), (32, 16), (48, 32)] {
        for version in [0u8, 1] {
            for pei in [0usize, 1] {
                let mk = |ptype: u8, tr: u8| -> Pic {
                    let (mbw, mbh) = mb_grid(w, h);
                    let mbs: Vec<Mb> = (0..mbw * mbh)
                        .map(|i| {
                            if ptype == 0 || i % 3 == 1 {
                                let mut blocks: [Blk; 6] = std::array::from_fn(|b| Blk::dc(40 + ((i * 6 + b) * 17 % 80) as u8));
                                blocks[i % 6].ev = vec![ev_auto(true, 2, 3, version == 1)];
                                Mb::Coded { kind: Kind::Intra, dquant: 0, mvd: vec![], blocks }
                            } else if i % 3 == 2 {
                                Mb::NotCoded
                            } else {
                                let mut blocks: [Blk; 6] = Default::default();
                                blocks[3].ev = vec![ev_auto(true, 0, -2, version == 1)];
                                Mb::Coded { kind: Kind::Inter, dquant: 0, mvd: vec![(3, -2)], blocks }
                            }
                        })
                        .collect();
                    Pic { hdr: Hdr::S(SHdr { version, tr, size: SSize::auto(w, h), ptype, deblock: true, q: 7, pei: (0..pei).map(|k| 0xA0 + k as u8).collect() }), mbs }
                };
                let i0 = mk(0, 0);
                bases.push((1, vec![], mk(0, 1)));
                bases.push((1, vec![i0.clone()], mk(0, 1)));
                bases.push((1, vec![i0.clone()], mk(1, 1)));
                bases.push((1, vec![i0.clone()], mk(2, 1)));
                bases.push((1, vec![i0.clone(), mk(2, 5)], mk(1, 2)));
            }
        }
    }
    for &(w, h) in &[(16u16, 16u16), (32, 16)] {
        let mk = |inter: bool, tr: u8| -> Pic {
            let (mbw, mbh) = mb_grid(w, h);
            let mut hd = StdHdr::custom(w, h, inter, tr, 6);
            hd.pei = vec![0x33];
            Pic { hdr: Hdr::Std(hd), mbs: (0..mbw * mbh).map(|i| if inter && i % 2 == 1 { Mb::NotCoded } else { Mb::intra_dc([50, 60, 70, 80, 90, (100 + i) as u8]) }).collect() }
        };
        bases.push((0, vec![], mk(false, 1)));
        bases.push((0, vec![mk(false, 0)], mk(true, 1)));
    }
    let _ = tier;
    let total: u64 = bases
        .par_iter()
        .map(|(opts, hist, pic)| {
            let full = encode_bytes(pic);
            // decode in one piece: the expected result
            let mut whole = Dec::new(*opts);
            let mut st = CmpStats::default();
            for p in hist {
                let _ = whole.step(p, "C05", &mut st);
            }
            let ow = whole.step(pic, "C05", &mut st);
            match &ow {
                Err(f) => {
                    rep.violation(&f.sig, format!("[split base] {}", f.what), whole.replay("split-delivery base picture"));
                    return 0;
                }
                Ok(None) => {
                    rep.violation("C05/machinery-base-picture-invalid", format!("base picture is rejected by decoder and model: {}", describe(pic)), whole.replay("split base"));
                    return 0;
                }
                Ok(Some(_)) => {}
            }
            let want_key = state_key(&whole.st);
            let want_snap = last_snap(&whole.st);
            // bit position after the header and after each macroblock (for the early-end model)
            let mut ends = vec![];
            for k in 0..=pic.mbs.len() {
                let mut q = pic.clone();
                q.mbs.truncate(k);
                ends.push(encode(&q).nbits);
            }
            let mut n = 0u64;
            for k in 0..full.len() {
                n += 1;
                let mut d = Dec::new(*opts);
                for p in hist {
                    let _ = d.step(p, "C05", &mut st);
                }
                let key0 = state_key(&d.st);
                let data = Rc::new(RefCell::new(full[..k].to_vec()));
                let mut rd = H263Reader::from_source(Grow(data.clone(), 0));
                let replay = json!({"kind": "split", "options": opts, "history": hist.iter().map(|p| hex(&encode_bytes(p))).collect::<Vec<_>>(), "picture": hex(&full), "split_at": k});
                // the same split as a transient I/O error instead of an end of data: the source
                // reports WouldBlock once when byte k is requested; the call must fail without
                // side effects and the next call on the same reader must decode the picture
                {
                    let mut d = Dec::new(*opts);
                    for p in hist {
                        let _ = d.step(p, "C05", &mut st);
                    }
                    let key0 = state_key(&d.st);
                    let mut src = full.clone();
                    src.extend_from_slice(&[0xDE, 0xAD, 0xBE, 0xEF]);
                    let mut rd = H263Reader::from_source(Blocky { data: &src, pos: 0, fail_at: k, fired: false });
                    let o1 = decode_with(&mut d.st, &mut rd);
                    let replay = json!({"kind": "split", "options": opts, "history": hist.iter().map(|p| hex(&encode_bytes(p))).collect::<Vec<_>>(), "picture": hex(&full), "split_at": k, "transient_error": "WouldBlock"});
                    match o1 {
                        Outcome::Panic(p) => rep.violation(&panic_sig(&p), format!("{}: WouldBlock at byte {k}: panic {p}", describe(pic)), replay),
                        Outcome::Ok => {
                            if state_key(&d.st) != want_key || last_snap(&d.st) != want_snap {
                                rep.violation("C05/transient-error-swallowed", format!("{}: the source reported WouldBlock at byte {k} of {}, the call returned Ok with a picture that differs from the one decoded without the error", describe(pic), full.len()), replay);
                            }
                        }
                        Outcome::Err(_) => {
                            if state_key(&d.st) != key0 {
                                rep.violation("C05/transient-error-changed-state", format!("{}: WouldBlock at byte {k}: error, but the decoder state changed", describe(pic)), replay);
                            } else {
                                let o2 = decode_with(&mut d.st, &mut rd);
                                if !o2.is_ok() || state_key(&d.st) != want_key || last_snap(&d.st) != want_snap {
                                    rep.violation("C05/retry-after-transient-error", format!("{}: the source reported WouldBlock at byte {k} of {}; the call failed, and the next call on the same reader gives {} and {} the picture decoded in one piece", describe(pic), full.len(), o2.short(), if last_snap(&d.st) == want_snap { "matches" } else { "does NOT match" }), replay);
                                }
                            }
                        }
                    }
                }
                match decode_with(&mut d.st, &mut rd) {
                    Outcome::Panic(p) => rep.violation(&panic_sig(&p), format!("{}: first {k} bytes: panic {p}", describe(pic)), replay),
                    Outcome::Err(_) => {
                        if state_key(&d.st) != key0 {
                            rep.violation("C05/split-first-call-changed-state", format!("{}: first {k} of {} bytes -> error, but the decoder state changed", describe(pic), full.len()), replay);
                            continue;
                        }
                        data.borrow_mut().extend_from_slice(&full[k..]);
                        let o2 = decode_with(&mut d.st, &mut rd);
                        if !o2.is_ok() || state_key(&d.st) != want_key || last_snap(&d.st) != want_snap {
                            rep.violation(
                                &format!("C05/retry-after-more-data[{}]", if k * 8 < ends[0] { "cut-in-header" } else { "cut-in-macroblocks" }),
                                format!("{}: call with the first {k} of {} bytes failed; after appending the rest the same reader gives {} and {} the picture decoded in one piece", describe(pic), full.len(), o2.short(), if last_snap(&d.st) == want_snap { "matches" } else { "does NOT match" }),
                                replay,
                            );
                        }
                    }
                    Outcome::Ok => {
                        // early-ended picture: must equal the model with only the complete macroblocks
                        let complete = (0..ends.len()).rev().find(|&c| ends[c] <= k * 8).unwrap_or(0);
                        let mut q = pic.clone();
                        q.mbs.truncate(complete);
                        let mut m = Dec::new(*opts);
                        for p in hist {
                            let _ = m.step(p, "C05", &mut st);
                        }
                        match crate::refdec::decode(&q, m.mref.as_ref()) {
                            Err(why) => rep.violation("C05/split-early-end-accepted", format!("{}: first {k} bytes accepted but the early-end model rejects: {why}", describe(pic)), replay),
                            Ok(dm) => {
                                let s = last_snap(&d.st).unwrap();
                                if let Some(diff) = crate::refdec::compare((&s.y, &s.cb, &s.cr), &dm, &mut st) {
                                    rep.violation("C05/split-early-end-picture", format!("{}: first {k} bytes accepted as a picture ending after {complete} macroblocks: {diff}", describe(pic)), replay);
                                }
                            }
                        }
                    }
                }
            }
            n
        })
        .sum();
    rep.add_transitions(2 * total);
    rep.add_states(total);
    rep.extra("split_points", json!(total));
    rep.extra("split_base_pictures", json!(bases.len()));
    total
}

/// An intra picture whose encoding is just above `target` bytes: escape-coded macroblocks until
/// the target is reached, flat ones for the rest of the grid.
fn heavy_picture(target: usize, std: bool, salt: usize) -> Pic {
    let heavy = |i: usize| -> Mb {
        let blocks: [Blk; 6] = std::array::from_fn(|b| {
            let mut blk = Blk::dc(60 + ((i * 6 + b + salt) * 11 % 120) as u8);
            if blk.dc == Some(128) {
                blk.dc = Some(129);
            }
            for k in 0..63usize {
                let level = 1 + ((i + b + k + salt) % 3) as i16;
                blk.ev.push(Ev { run: 0, level: if (i + k) % 2 == 0 { level } else { -level }, form: Form::Esc8 });
            }
            blk
        });
        Mb::Coded { kind: Kind::Intra, dquant: 0, mvd: vec![], blocks }
    };
    let per_heavy = 6 * (8 + 63 * 22) + 6; // bits, about
    let needed = target * 8 / per_heavy + 2;
    let mbw = ((needed as f64).sqrt().ceil() as usize).clamp(1, 127);
    let mbh = needed.div_ceil(mbw);
    let (w, h) = ((mbw * 16) as u16, (mbh * 16) as u16);
    let hdr = if std { Hdr::Std(StdHdr::custom(w, h, false, 3, 1)) } else { Hdr::S(SHdr { version: 0, tr: 3, size: SSize::Custom16(w, h), ptype: 0, deblock: false, q: 1, pei: vec![] }) };
    let hbits = encode(&Pic { hdr: hdr.clone(), mbs: vec![] }).nbits;
    let one = encode(&Pic { hdr: hdr.clone(), mbs: vec![heavy(0)] }).nbits - hbits;
    let n_heavy = (target * 8 + 512 - hbits).div_ceil(one).min(mbw * mbh);
    let mbs: Vec<Mb> = (0..mbw * mbh).map(|i| if i < n_heavy { heavy(i) } else { Mb::intra_flat(70 + (i % 50) as u8) }).collect();
    Pic { hdr, mbs }
}

/// Scale: pictures of 2^k bytes and a little more, failing late (data ends, or an invalid code,
/// near the end or at a power-of-two offset): state unchanged, reader rewound, retry succeeds.
fn scale_delivery(rep: &Report, tier: Tier) {
    let ks: Vec<u32> = if tier.thorough() { (12..=21).collect() } else { vec![12, 14, 16, 17, 18] };
    let mut work: Vec<(u32, bool)> = vec![];
    for &k in &ks {
        work.push((k, false));
        if k % 2 == 0 || tier.thorough() {
            work.push((k, true));
        }
    }
    let total: u64 = work
        .par_iter()
        .map(|&(k, std)| {
            let opts = if std { 0 } else { 1 };
            let pic = heavy_picture(1usize << k, std, k as usize);
            let full = encode_bytes(&pic);
            let mut whole = Dec::new(opts);
            let mut st = CmpStats::default();
            match whole.step_bytes(&pic, &full, "C05", &mut st) {
                Ok(Some(_)) => {}
                Ok(None) => {
                    rep.violation("C05/machinery-large-picture-invalid", format!("large base picture of {} bytes is rejected by decoder and model", full.len()), json!({"kind": "machinery"}));
                    return 0;
                }
                Err(f) => {
                    rep.violation(&f.sig, format!("[large base picture, {} bytes] {}", full.len(), f.what), json!({"kind": "large", "std": std, "k": k, "cut": full.len()}));
                    return 0;
                }
            }
            let (want_key, want_snap) = (state_key(&whole.st), last_snap(&whole.st));
            let mut cuts: Vec<usize> = vec![full.len() - 1, full.len() - 2, full.len() - 100, full.len() / 2, full.len() / 3];
            for j in 8..=k {
                cuts.extend([(1usize << j) - 1, 1 << j, (1 << j) + 1]);
            }
            cuts.retain(|c| *c > 16 && *c < full.len());
            cuts.sort();
            cuts.dedup();
            let mut n = 0u64;
            for &cut in &cuts {
                for corrupt in [false, true] {
                    n += 1;
                    let replay = json!({"kind": "large", "std": std, "k": k, "cut": cut, "corrupt": corrupt, "bytes": full.len()});
                    let mut d = Dec::new(opts);
                    let key0 = state_key(&d.st);
                    // first delivery: the picture up to `cut`; corrupt = followed by sixteen zero
                    // bytes (an invalid code wherever the cut falls) instead of the end of data
                    let mut first = full[..cut].to_vec();
                    if corrupt {
                        first.extend_from_slice(&[0u8; 16]);
                    }
                    let data = Rc::new(RefCell::new(first.clone()));
                    let mut rd = H263Reader::from_source(Grow(data.clone(), 0));
                    match decode_with(&mut d.st, &mut rd) {
                        Outcome::Panic(p) => rep.violation(&panic_sig(&p), format!("large picture ({} bytes) cut at {cut}: panic {p}", full.len()), replay),
                        Outcome::Ok => {} // accepted as ending early; its content is C03's and the small split sweep's business
                        Outcome::Err(_) => {
                            if state_key(&d.st) != key0 {
                                rep.violation("C05/large-failed-call-changed-state", format!("large picture ({} bytes) cut at {cut}: error, but the decoder state changed", full.len()), replay);
                                continue;
                            }
                            // the reader delivers the same bytes again from the start of the picture
                            let mut ok = true;
                            for (i, b) in first.iter().enumerate() {
                                if rd.read_u8().ok() != Some(*b) {
                                    rep.violation("C05/large-reader-not-rewound", format!("large picture ({} bytes) cut at {cut}{}: after the failed call byte {i} read from the same reader differs from the source", full.len(), if corrupt { " + zeros" } else { "" }), replay.clone());
                                    ok = false;
                                    break;
                                }
                            }
                            if !ok || corrupt {
                                continue;
                            }
                            // retry on a twin reader after the rest has arrived
                            let mut d2 = Dec::new(opts);
                            let data2 = Rc::new(RefCell::new(full[..cut].to_vec()));
                            let mut rd2 = H263Reader::from_source(Grow(data2.clone(), 0));
                            let _ = decode_with(&mut d2.st, &mut rd2);
                            data2.borrow_mut().extend_from_slice(&full[cut..]);
                            let o2 = decode_with(&mut d2.st, &mut rd2);
                            if !o2.is_ok() || state_key(&d2.st) != want_key || last_snap(&d2.st) != want_snap {
                                rep.violation("C05/large-retry-after-more-data", format!("large picture: the call with the first {cut} of {} bytes failed; after appending the rest the same reader gives {} and {} the picture decoded in one piece", full.len(), o2.short(), if last_snap(&d2.st) == want_snap { "matches" } else { "does NOT match" }), replay);
                            }
                        }
                    }
                }
            }
            n
        })
        .sum();
    rep.add_transitions(2 * total);
    rep.add_states(total);
    rep.extra("large_picture_cases", json!(total));
}

fn hwm(tag: &str) {
    if std::env::var("VERIF_MEM").is_ok() {
        if let Ok(st) = std::fs::read_to_string("/proc/self/status") {
            for l in st.lines() {
                if l.starts_with("VmHWM") || l.starts_with("VmRSS") {
                    eprintln!("[mem] {tag}: {l}");
                }
            }
        }
    }
}

pub fn run(tier: Tier) -> Report {
    let rep = Report::new("C05", "atomic", tier);
    let site_failed: Mutex<BTreeMap<String, u64>> = Mutex::new(BTreeMap::new());
    let mut graphs = vec![];
    let mut flip_stats = vec![];
    for sorenson in [true, false] {
        let world = closed_world(sorenson, if tier.thorough() { &[0, 1, 2, 255] } else { &TRS }, 3);
        // states of the reachable graph (violations of C04 itself are reported by C04, not here)
        let quiet = Report::new("C04", "refgraph", tier);
        let ex = explore(&world, &quiet, "C04", None, false);
        let mut sites = failure_sites(sorenson);
        if tier.thorough() {
            sites.extend(grammar_sites(sorenson));
        }
        rep.add_states(ex.nodes.len() as u64);
        fail_checks(&rep, &world, &ex.nodes, &sites, &site_failed, true);
        // every single-bit corruption of valid base pictures, in the shallow states (quick: initial
        // state and one picture; thorough: up to two pictures, with continuations)
        let flips = bitflip_sites(sorenson, crate::evidence::seed());
        let depth = if tier.thorough() { 2 } else { 1 };
        let shallow: Vec<Node> = ex.nodes.iter().filter(|n| n.hist.len() <= depth).map(|n| Node { hist: n.hist.clone(), last_ne_ref: n.last_ne_ref }).collect();
        let flip_failed: Mutex<BTreeMap<String, u64>> = Mutex::new(BTreeMap::new());
        if tier.thorough() {
            // continuations for the states reached by at most one picture; the deeper states without
            let (d1, d2): (Vec<Node>, Vec<Node>) = shallow.iter().map(|n| Node { hist: n.hist.clone(), last_ne_ref: n.last_ne_ref }).partition(|n| n.hist.len() <= 1);
            fail_checks(&rep, &world, &d1, &flips, &flip_failed, true);
            fail_checks(&rep, &world, &d2, &flips, &flip_failed, false);
        } else {
            fail_checks(&rep, &world, &shallow, &flips, &flip_failed, false);
        }
        hwm("after flips");
        let ff = flip_failed.lock().unwrap();
        flip_stats.push(json!({"mode": if sorenson { "sorenson" } else { "standard" }, "corrupted_inputs": flips.len(), "states": shallow.len(), "inputs_that_failed_in_some_state": ff.len(), "failing_calls": ff.values().sum::<u64>()}));
        drop(ff);
        rep.add_nontrivial(shallow.iter().filter(|n| !n.hist.is_empty()).count() as u64 * flips.len() as u64);
        graphs.push(json!({"mode": if sorenson { "sorenson" } else { "standard" }, "states": ex.nodes.len(), "failure_sites": sites.len(), "operations": world.ops.len(), "fixpoint": ex.fixpoint}));
        rep.add_nontrivial(ex.nodes.iter().filter(|n| !n.hist.is_empty()).count() as u64 * sites.len() as u64);
    }
    if tier.thorough() {
        let world = motion_world(crate::evidence::seed());
        let quiet = Report::new("C04", "refgraph", tier);
        let ex = explore(&world, &quiet, "C04", Some(4), true);
        let sites = failure_sites(true);
        rep.add_states(ex.nodes.len() as u64);
        fail_checks(&rep, &world, &ex.nodes, &sites, &site_failed, false);
        graphs.push(json!({"mode": "sorenson-motion", "states": ex.nodes.len(), "failure_sites": sites.len(), "depth": 4}));
    }
    rep.extra("graphs", json!(graphs));
    rep.extra("single_bit_corruptions", json!(flip_stats));
    let sf = site_failed.lock().unwrap().clone();
    rep.extra("failing_calls_per_site", json!(sf));
    split_delivery(&rep, tier);
    hwm("after split");
    scale_delivery(&rep, tier);
    hwm("after scale");
    rep.set_rule(
        "for every state of the reachable decoder graph (closed alphabets of C04, both modes) x every failure site (no start code, header cut at every byte, reserved size/format, unsupported types, invalid MCBPC/CBPY/MVD/INTRADC/TCOEF/escape after 0 or 1 good macroblocks in I and P pictures, prediction without or with a mismatching reference) and, in the states reached by at most one (thorough: two) pictures, x every single-bit corruption of five valid base pictures: if the call returns Err then the whole decoder state (hooked key incl. carried-over options), the most recent picture and the bits re-read from the same reader are unchanged, a second failure changes nothing, and every continuation equals a twin that never saw the input; every byte split of every base picture delivered in two parts to one reader, and with a transient WouldBlock from the source at every byte instead; pictures of 2^k bytes (k = 12..18, thorough ..21) cut or corrupted near the end, in the middle and at every power-of-two offset: state unchanged, the reader re-delivers every byte, the retry after the rest arrives equals the one-piece decode; non-trivial = (non-initial state, site) pairs",
    );
    rep.sample(json!({"state": ["I(tr=0,0)", "Da(tr=255,1)"], "failing_input": "INTRADC 0 in macroblock 1 of an I picture (deblocking flag set)", "continuation": "Pb(tr=0,1)"}));
    rep.sample(json!({"split": "32x16 P picture after [I, D], bytes 0..k delivered first for every k"}));
    rep.assume("the property is conditional on Err: inputs that a state accepts are skipped; evidence lists how often each site actually failed");
    rep
}

pub fn replay(case: &serde_json::Value) {
    if case["kind"] == "large" {
        let (k, std) = (case["k"].as_u64().unwrap_or(12) as u32, case["std"].as_bool().unwrap_or(false));
        let full = encode_bytes(&heavy_picture(1usize << k, std, k as usize));
        let cut = (case["cut"].as_u64().unwrap_or(0) as usize).min(full.len());
        let mut first = full[..cut].to_vec();
        if case["corrupt"].as_bool().unwrap_or(false) {
            first.extend_from_slice(&[0u8; 16]);
        }
        let mut st = h263_rs::H263State::new(options_from_bits(if std { 0 } else { 1 }));
        let data = Rc::new(RefCell::new(first.clone()));
        let mut rd = H263Reader::from_source(Grow(data.clone(), 0));
        println!("heavy_picture(2^{k} bytes, standard mode = {std}) encodes to {} bytes; first call with {} bytes: {}", full.len(), first.len(), decode_with(&mut st, &mut rd).short());
        let again: Vec<u8> = (0..first.len().min(8)).filter_map(|_| rd.read_u8().ok()).collect();
        println!("the same reader now delivers {} ...; the source starts with {}", hex(&again), hex(&first[..first.len().min(8)]));
        return;
    }
    let opts = case["options"].as_u64().unwrap_or(1) as u8;
    let mut st = h263_rs::H263State::new(options_from_bits(opts));
    for s in case["history"].as_array().unwrap() {
        println!("history picture: {}", decode_bytes(&mut st, &crate::bits::unhex(s.as_str().unwrap())).short());
    }
    let full = crate::bits::unhex(case["picture"].as_str().unwrap());
    let k = case["split_at"].as_u64().unwrap() as usize;
    let data = Rc::new(RefCell::new(full[..k].to_vec()));
    let mut rd = H263Reader::from_source(Grow(data.clone(), 0));
    println!("first call with {k} of {} bytes: {}", full.len(), decode_with(&mut st, &mut rd).short());
    data.borrow_mut().extend_from_slice(&full[k..]);
    println!("second call after appending the rest: {} -> {:?}", decode_with(&mut st, &mut rd).short(), last_snap(&st).map(|s| (s.dims, s.tr, format!("{:016x}", s.hash()))));
}
