//! C11: dequantisation exact and saturating; INTRADC mapping; quantizer update clamp.

use super::common::*;
use super::inter::shdr;
#[allow(unused_imports)]
use crate::evidence::{catch, panic_sig, Report, Tier};
use crate::refdec::{dequant, CmpStats};
use crate::refhdr::StdHdr;
use crate::syntax::*;
use crate::tables::zigzag;
use crate::util::*;
#[cfg(feature = "internals")]
use h263_rs::verif::{inverse_rle, Block, DecodedDctBlock, IntraDc, TCoefficient};
use rayon::prelude::*;
use serde_json::json;

#[cfg(feature = "internals")]
fn matrix(b: &DecodedDctBlock) -> [[f32; 8]; 8] {
    let mut m = [[0f32; 8]; 8];
    match b {
        DecodedDctBlock::Zero => {}
        DecodedDctBlock::Dc(v) => m[0][0] = *v,
        DecodedDctBlock::Horiz(r) => m[0] = *r,
        DecodedDctBlock::Vert(c) => {
            for y in 0..8 {
                m[y][0] = c[y];
            }
        }
        DecodedDctBlock::Full(f) => m = *f,
    }
    m
}

#[cfg(feature = "internals")]
fn direct_part(rep: &Report, zz: &[(usize, usize); 64]) {
    // (a) exact, through the hook: q x level x position x {with, without INTRADC}
    let qs: Vec<u8> = (1..=31).collect();
    let n_direct: u64 = qs
        .par_iter()
        .map(|&q| {
            let mut n = 0u64;
            for level in -1023..=1023i16 {
                if level == 0 {
                    continue;
                }
                for pos in 0..64usize {
                    for with_dc in [false, true] {
                        if with_dc && pos == 0 {
                            continue;
                        }
                        let run = if with_dc { pos - 1 } else { pos } as u8;
                        let blk = Block { intradc: if with_dc { IntraDc::from_u8(77) } else { None }, tcoef: vec![TCoefficient { is_short: false, run, level }] };
                        let mut levels = [DecodedDctBlock::Zero];
                        n += 1;
                        if let Err(p) = catch(|| inverse_rle(&blk, &mut levels, (0, 0), 1, q)) {
                            rep.violation(&panic_sig(&p), format!("inverse_rle(q={q}, level={level}, position {pos}): {p}"), json!({"kind": "dequant", "q": q, "level": level, "position": pos, "intradc": with_dc}));
                            continue;
                        }
                        let m = matrix(&levels[0]);
                        let want = dequant(level as i32, q);
                        let (x, y) = zz[pos];
                        let mut ok = m[y][x] == want as f32;
                        for yy in 0..8 {
                            for xx in 0..8 {
                                if (xx, yy) != (x, y) {
                                    let e = if with_dc && xx == 0 && yy == 0 { 77.0 * 8.0 } else { 0.0 };
                                    ok &= m[yy][xx] == e;
                                }
                            }
                        }
                        if !ok {
                            let class = if want.abs() == 2047 || want == -2048 { "saturation" } else if q % 2 == 0 { "even-q" } else { "odd-q" };
                            rep.violation(
                                &format!("C11/coefficient-{class}"),
                                format!("q={q} level={level} zig-zag position {pos} (x={x},y={y}){}: reconstructed {} there, formula gives {want}", if with_dc { " after an INTRADC" } else { "" }, m[y][x]),
                                json!({"kind": "dequant", "q": q, "level": level, "position": pos, "intradc": with_dc}),
                            );
                        }
                    }
                }
            }
            n
        })
        .sum();
    // call history: the dequantiser is a pure function of (quantizer, level); all ordered triples of
    // calls over a boundary alphabet on one dedicated thread
    let qs_h: [u8; 6] = [1, 2, 5, 16, 30, 31];
    let ls_h: [i16; 9] = [1, -2, 12, 33, -50, 127, 528, -600, 1023];
    let letters: Vec<(u8, i16)> = qs_h.iter().flat_map(|q| ls_h.iter().map(move |l| (*q, *l))).collect();
    let n = letters.len();
    let lr = &letters;
    std::thread::scope(|sc| {
        sc.spawn(move || {
            crate::evidence::install_panic_hook();
            for a in 0..n {
                for b in 0..n {
                    for c in 0..n {
                        for (step, &k) in [a, b, c].iter().enumerate() {
                            let (q, level) = lr[k];
                            let blk = Block { intradc: None, tcoef: vec![TCoefficient { is_short: false, run: 3, level }] };
                            let mut levels = [DecodedDctBlock::Zero];
                            let r = catch(|| inverse_rle(&blk, &mut levels, (0, 0), 1, q));
                            let m = matrix(&levels[0]);
                            let (x, y) = zz[3];
                            if r.is_err() || m[y][x] != dequant(level as i32, q) as f32 {
                                rep.violation_lazy("C11/coefficient-depends-on-call-history", || {
                                    (
                                        format!("after dequantising {:?}, (q={q}, level={level}) reconstructs to {} instead of {}", [a, b, c][..step].iter().map(|i| lr[*i]).collect::<Vec<_>>(), m[y][x], dequant(level as i32, q)),
                                        {
                                            let calls: Vec<serde_json::Value> = [a, b, c][..=step].iter().map(|i| json!({"q": lr[*i].0, "level": lr[*i].1})).collect();
                                            json!({"kind": "dequant-history", "calls": calls})
                                        },
                                    )
                                });
                            }
                        }
                    }
                }
            }
        });
    });
    rep.add_transitions(3 * (n * n * n) as u64 + n_direct);
    rep.add_states(n_direct + (n * n * n) as u64);
    rep.extra("call_history_triples", json!(n * n * n));
    rep.extra("direct_dequantiser_calls", json!(n_direct));
}

pub fn run(tier: Tier) -> Report {
    let rep = Report::new("C11", "dequant", tier);
    let zz = zigzag();

    #[cfg(feature = "internals")]
    direct_part(&rep, &zz);
    #[cfg(not(feature = "internals"))]
    {
        let _ = &zz;
        rep.extra("degraded", json!("hooked internals did not build: the direct dequantiser sweep was skipped, end-to-end sweeps only"));
        println!("NOTE: C11 runs without the direct (hooked) dequantiser sweep");
    }

    // ---- (b) end to end: every q x every level in every codable form, six consecutive levels per picture
    let mut pics: Vec<Pic> = vec![];
    let positions: Vec<usize> = if tier.thorough() { (1..64).collect() } else { vec![1, 2, 8, 63] };
    let forms: Vec<(Form, i16, Vec<Hdr>)> = vec![
        (Form::Esc8, 127, vec![shdr(16, 16, 0, 0, 1, 0), Hdr::Std(StdHdr::custom(16, 16, false, 0, 1))]),
        (Form::Esc7, 63, vec![shdr(16, 16, 0, 0, 1, 1)]),
        (Form::Esc11, 1023, vec![shdr(16, 16, 0, 0, 1, 1)]),
    ];
    for q in 1..=31u8 {
        for (form, maxl, hdrs) in &forms {
            let all: Vec<i16> = (-*maxl..=*maxl).filter(|l| *l != 0).collect();
            for chunk in all.chunks(6) {
                for (pi, &pos) in positions.iter().enumerate() {
                    // the full position set for a level subset, four positions for every level
                    if tier.thorough() && pi >= 4 && chunk[0].abs() % 8 > 5 && *maxl > 127 {
                        continue; // 11-bit levels: three quarters of the level chunks at every position
                    }
                    for hdr in hdrs {
                        let mut hdr = hdr.clone();
                        match &mut hdr {
                            Hdr::S(h) => h.q = q,
                            Hdr::Std(h) => h.pquant = q,
                        }
                        let blocks: [Blk; 6] = std::array::from_fn(|b| {
                            let mut blk = Blk::dc(100);
                            if let Some(&l) = chunk.get(b) {
                                blk.ev = vec![Ev { run: (pos - 1) as u8, level: l, form: *form }];
                            }
                            blk
                        });
                        pics.push(Pic { hdr, mbs: vec![Mb::Coded { kind: Kind::Intra, dquant: 0, mvd: vec![], blocks }] });
                    }
                }
            }
        }
        // short codes: every table entry x sign
        for k in 0..102usize {
            let last = k >= 58;
            if !last {
                continue; // single-event blocks use the last=1 half; last=0 codes are covered by C02
            }
            let (run, level) = (crate::tables::TCOEF_RUN[k], crate::tables::TCOEF_LEVEL[k] as i16);
            let blocks: [Blk; 6] = std::array::from_fn(|b| {
                let mut blk = Blk::dc(90);
                blk.ev = vec![Ev { run, level: if b % 2 == 0 { level } else { -level }, form: Form::Short }];
                blk
            });
            pics.push(Pic { hdr: shdr(16, 16, 0, 0, q, (k % 2) as u8), mbs: vec![Mb::Coded { kind: Kind::Intra, dquant: 0, mvd: vec![], blocks: blocks.clone() }] });
            pics.push(Pic { hdr: Hdr::Std(StdHdr::custom(16, 16, false, 0, q)), mbs: vec![Mb::Coded { kind: Kind::Intra, dquant: 0, mvd: vec![], blocks }] });
        }
    }
    let stats = std::sync::Mutex::new(CmpStats::default());
    pics.par_iter().for_each(|p| {
        let mut d = Dec::for_hdr(&p.hdr);
        let mut st = CmpStats::default();
        if let Err(f) = d.step(p, "C11", &mut st) {
            rep.violation(&f.sig, format!("[end-to-end] {}", f.what), d.replay("end-to-end dequantisation"));
        }
        let mut g = stats.lock().unwrap();
        g.samples += st.samples;
        g.ties += st.ties;
    });
    rep.add_transitions(pics.len() as u64);
    rep.add_states(pics.len() as u64);
    rep.add_nontrivial(pics.len() as u64);
    rep.extra("end_to_end_pictures", json!(pics.len()));

    // ---- (c) INTRADC: all 256 codes x 6 block positions
    // (under three header kinds: Sorenson version 0 / 1 and H.263 with PLUSPTYPE)
    let cases: Vec<(u8, usize, u8)> = (0..=255u8).flat_map(|c| (0..6).flat_map(move |b| (0..3u8).map(move |k| (c, b, k)))).collect();
    cases.par_iter().for_each(|&(code, b, kind)| {
        let blocks: [Blk; 6] = std::array::from_fn(|k| Blk::dc(if k == b { code } else { 50 }));
        let hdr = if kind == 2 { Hdr::Std(StdHdr::custom(16, 16, false, 0, 13)) } else { shdr(16, 16, 0, 0, 13, kind) };
        let pic = Pic { hdr, mbs: vec![Mb::Coded { kind: Kind::Intra, dquant: 0, mvd: vec![], blocks }] };
        let bytes = encode_bytes(&pic);
        let mut st = h263_rs::H263State::new(options(kind != 2, false));
        let o = decode_bytes(&mut st, &bytes);
        let replay = replay_seq(if kind != 2 { 1 } else { 0 }, &[bytes.clone()], "INTRADC");
        if code == 0 || code == 128 {
            if !o.is_err() {
                rep.violation("C11/intradc-forbidden-accepted", format!("INTRADC code {code} in block {b}: {}", o.short()), replay);
            }
            return;
        }
        if !o.is_ok() {
            rep.violation(&format!("C11/intradc-rejected"), format!("INTRADC code {code} in block {b}: {}", o.short()), replay);
            return;
        }
        let s = last_snap(&st).unwrap();
        let want = if code == 255 { 128 } else { code };
        // block b of the macroblock: luma 8x8 quadrant or a chroma plane
        let vals: Vec<u8> = match b {
            0..=3 => {
                let (bx, by) = ((b % 2) * 8, (b / 2) * 8);
                (0..64).map(|i| s.y[(by + i / 8) * 16 + bx + i % 8]).collect()
            }
            4 => s.cb.clone(),
            _ => s.cr.clone(),
        };
        if vals.iter().any(|v| *v != want) {
            rep.violation("C11/intradc-level", format!("INTRADC code {code} in block {b}: block is {:?}..., expected flat {want} (level {} / 8)", &vals[..4], if code == 255 { 1024 } else { code as u32 * 8 }), replay);
        }
    });
    rep.add_transitions(cases.len() as u64);
    rep.add_states(cases.len() as u64);

    // ---- (d) quantizer update and clamp: DQUANT picture must equal the picture coded with the clamped PQUANT
    let mut n_dq = 0u64;
    for q in 1..=31u8 {
        for dq in [-2i8, -1, 1, 2] {
            for version in [0u8, 1, 2] {
                // version 2 stands for H.263 with PLUSPTYPE
                let mk = |kind: Kind, pq: u8, dquant: i8| {
                    let blocks: [Blk; 6] = std::array::from_fn(|b| {
                        let mut blk = Blk::dc(100);
                        blk.ev = vec![ev_auto(true, b as u8, if b % 2 == 0 { 10 } else { -10 }, version == 1)];
                        blk
                    });
                    let hdr = if version == 2 { Hdr::Std(StdHdr::custom(16, 16, false, 0, pq)) } else { shdr(16, 16, 0, 0, pq, version) };
                    Pic { hdr, mbs: vec![Mb::Coded { kind, dquant, mvd: vec![], blocks }] }
                };
                let with_dq = mk(Kind::IntraQ, q, dq);
                let target = (q as i32 + dq as i32).clamp(1, 31) as u8;
                let plain = mk(Kind::Intra, target, 0);
                let mut a = Dec::new(if version == 2 { 0 } else { 1 });
                let mut b = Dec::new(if version == 2 { 0 } else { 1 });
                let mut st = CmpStats::default();
                n_dq += 2;
                if let Err(f) = a.step(&with_dq, "C11", &mut st) {
                    rep.violation(&f.sig, format!("[dquant] {}", f.what), a.replay("dquant"));
                    continue;
                }
                let _ = b.step(&plain, "C11", &mut st);
                let (sa, sb) = (last_snap(&a.st), last_snap(&b.st));
                if sa.as_ref().map(|s| (&s.y, &s.cb, &s.cr)) != sb.as_ref().map(|s| (&s.y, &s.cb, &s.cr)) {
                    rep.violation("C11/quantizer-update", format!("PQUANT {q} DQUANT {dq}: picture differs from the one coded with quantizer {target}"), a.replay("dquant"));
                }
            }
        }
    }
    // sequences of three quantizer updates around both limits (a clamped update followed by an update
    // in the other direction), against the reference decoder
    let mut n_tr = 0u64;
    for q in [1u8, 2, 3, 29, 30, 31] {
        for a in [-2i8, -1, 1, 2] {
            for b in [-2i8, -1, 1, 2] {
                for c in [-2i8, -1, 1, 2] {
                    let mbs: Vec<Mb> = [a, b, c]
                        .iter()
                        .enumerate()
                        .map(|(i, &dq)| {
                            let mut blocks: [Blk; 6] = std::array::from_fn(|k| Blk::dc(100 + k as u8));
                            blocks[i].ev = vec![ev_auto(true, 0, 10, false)];
                            blocks[5].ev = vec![ev_auto(true, 2, -10, false)];
                            Mb::Coded { kind: Kind::IntraQ, dquant: dq, mvd: vec![], blocks }
                        })
                        .collect();
                    let pic = Pic { hdr: shdr(48, 16, 0, 0, q, 0), mbs };
                    let mut d = Dec::new(1);
                    let mut st = CmpStats::default();
                    n_tr += 1;
                    if let Err(f) = d.step(&pic, "C11", &mut st) {
                        rep.violation_lazy(&format!("C11/quantizer-update-sequence[{}]", f.sig.rsplit('/').next().unwrap_or("")), || (format!("PQUANT {q}, DQUANT sequence ({a},{b},{c}): {}", f.what), d.replay("dquant sequence")));
                    }
                }
            }
        }
    }
    // the same in predicted pictures, where a macroblock can carry a quantizer update without any
    // coded block: every DQUANT triple x every pattern of {no coded block, coded blocks} for the
    // first two updates (INTER+Q and INTER4V+Q), the third macroblock always has coefficients
    {
        let reference = Pic { hdr: shdr(48, 16, 0, 0, 5, 0), mbs: (0..3).map(|i| Mb::intra_flat(90 + 20 * i as u8)).collect() };
        for q in [1u8, 2, 3, 29, 30, 31] {
            for a in [-2i8, -1, 1, 2] {
                for b in [-2i8, -1, 1, 2] {
                    for c in [-2i8, -1, 1, 2] {
                        for coded in 0..4usize {
                            for four in [false, true] {
                                let mbs: Vec<Mb> = [a, b, c]
                                    .iter()
                                    .enumerate()
                                    .map(|(i, &dq)| {
                                        let mut blocks: [Blk; 6] = Default::default();
                                        if i == 2 || (coded >> i) & 1 == 1 {
                                            blocks[i].ev = vec![ev_auto(true, 0, 10, false)];
                                            blocks[5].ev = vec![ev_auto(true, 2, -10, false)];
                                        }
                                        if four && i < 2 {
                                            Mb::Coded { kind: Kind::Inter4VQ, dquant: dq, mvd: vec![(0, 0); 4], blocks }
                                        } else {
                                            Mb::Coded { kind: Kind::InterQ, dquant: dq, mvd: vec![(0, 0)], blocks }
                                        }
                                    })
                                    .collect();
                                let pic = Pic { hdr: shdr(48, 16, 1, 1, q, 0), mbs };
                                let mut d = Dec::new(1);
                                let mut st = CmpStats::default();
                                n_tr += 1;
                                let _ = d.step(&reference, "C11", &mut st);
                                if let Err(f) = d.step(&pic, "C11", &mut st) {
                                    rep.violation_lazy(&format!("C11/quantizer-update-sequence-inter[{}]", f.sig.rsplit('/').next().unwrap_or("")), || (format!("P picture, PQUANT {q}, DQUANT sequence ({a},{b},{c}), coded-block pattern {coded:02b}, four-vector = {four}: {}", f.what), d.replay("dquant sequence in a predicted picture")));
                                }
                            }
                        }
                    }
                }
            }
        }
    }
    rep.add_transitions(n_dq + n_tr);
    rep.add_states(n_dq / 2 + n_tr);

    let g = stats.lock().unwrap();
    rep.extra("samples_compared", json!(g.samples));
    rep.extra("samples_accepted_inside_rounding_band", json!(g.ties));
    rep.set_rule(
        "(a) every quantizer 1..31 x level +-1..1023 x zig-zag position 0..63 x {with, without INTRADC} through the hooked dequantiser, exact coefficient and position, plus all ordered triples of calls over a 54-letter (quantizer, level) alphabet on one thread (purity); (b) end to end: every quantizer x every level of every codable form (8-bit escape in H.263 and Sorenson v0, 7- and 11-bit escapes in Sorenson v1, short codes) in 16x16 intra pictures against the reference decoder; (c) all 256 INTRADC codes x 6 blocks; (d) 31 x 4 DQUANT updates x 2 versions against the picture coded with the clamped quantizer, all DQUANT triples next to the limits in intra pictures and in predicted pictures with and without coded blocks in the updating macroblocks; non-trivial = end-to-end pictures",
    );
    rep.sample(json!({"direct": {"q": 31, "level": 1023, "position": 63, "expected": dequant(1023, 31)}}));
    rep.sample(json!({"end_to_end": "Sorenson v1 q=31, blocks carry 11-bit levels 529..534 at zig-zag position 8"}));
    rep.sample(json!({"intradc": "code 255 in block 4 -> flat 128"}));
    rep
}
