//! C15: one decode call consumes exactly one picture of a stream.

use super::common::*;
use crate::evidence::{panic_sig, Report, Tier};
use crate::refdec::CmpStats;
use crate::refhdr::{SHdr, SSize, StdHdr};
use crate::syntax::*;
use crate::util::*;
use h263_rs::parser::H263Reader;
use h263_rs::H263State;
use rayon::prelude::*;
use serde_json::json;

#[derive(Clone, Copy, Debug, PartialEq, Eq)]
enum Mode {
    Sorenson,
    StdCustom,
    StdBaseline,
}

fn hdr(mode: Mode, w: u16, h: u16, ptype: u8, tr: u8, pei: usize, version: u8) -> Hdr {
    let pei: Vec<u8> = (0..pei).map(|k| (0x11 * (k + 1)) as u8 ^ tr).collect();
    match mode {
        Mode::Sorenson => Hdr::S(SHdr { version, tr, size: SSize::auto(w, h), ptype, deblock: tr % 2 == 1, q: 6, pei }),
        Mode::StdCustom => {
            let mut s = StdHdr::custom(w, h, ptype != 0, tr, 6);
            s.pei = pei;
            Hdr::Std(s)
        }
        Mode::StdBaseline => {
            let mut s = StdHdr::baseline(1, ptype != 0, tr, 6);
            s.pei = pei;
            Hdr::Std(s)
        }
    }
}

/// content 0: every macroblock coded, the last one with AC data; content 1: last macroblock not coded / DC only
fn body(h: &Hdr, content: usize, salt: usize) -> Vec<Mb> {
    let (w, hh) = h.dims().unwrap();
    let (mbw, mbh) = mb_grid(w, hh);
    let n = mbw * mbh;
    let is_i = h.pic_type() == PicType::I;
    let v1 = h.v1();
    (0..n)
        .map(|i| {
            let last = i + 1 == n;
            let dc = |b: usize| {
                let v = 30 + ((i * 6 + b + salt * 7) * 23 % 190) as u8;
                if v == 128 {
                    127
                } else {
                    v
                }
            };
            if is_i {
                let mut blocks: [Blk; 6] = std::array::from_fn(|b| Blk::dc(dc(b)));
                if content == 0 || !last {
                    blocks[(i + salt) % 6].ev = vec![ev_auto(true, (i % 9) as u8, 2, v1)];
                    if content == 0 && last {
                        blocks[5].ev = vec![ev_auto(false, 0, 1, v1), ev_auto(true, 3, -1, v1)];
                    }
                }
                Mb::Coded { kind: Kind::Intra, dquant: 0, mvd: vec![], blocks }
            } else if content == 1 && last {
                Mb::NotCoded
            } else if (i + salt) % 3 == 0 {
                Mb::Coded { kind: Kind::Intra, dquant: 0, mvd: vec![], blocks: std::array::from_fn(|b| Blk::dc(dc(b))) }
            } else {
                let mut blocks: [Blk; 6] = Default::default();
                if content == 0 {
                    blocks[5].ev = vec![ev_auto(true, 1, -2, v1)];
                }
                Mb::Coded { kind: Kind::Inter, dquant: 0, mvd: vec![(((i + salt) % 5) as i8 - 2, (i % 3) as i8 - 1)], blocks }
            }
        })
        .collect()
}

struct Letter {
    pic: Pic,
    bytes: Vec<u8>,
    pad: usize,
    name: String,
}

fn alphabet(mode: Mode, w: u16, h: u16, reduced: bool) -> Vec<Letter> {
    let mut v = vec![];
    let types: &[u8] = if mode == Mode::Sorenson { &[0, 1, 2] } else { &[0, 1] };
    for &t in types {
        for pei in 0..8usize {
            for content in 0..3usize {
                if reduced && mode != Mode::Sorenson && pei % 2 == 1 && content >= 1 {
                    continue;
                }
                // content 2 = content 0 with MCBPC stuffing codewords in the macroblock layer; only on
                // two PEI counts to keep the alphabet small
                if content == 2 && pei % 4 != 1 {
                    continue;
                }
                let tr = (t as usize * 16 + pei * 2 + content) as u8;
                let hd = hdr(mode, w, h, t, tr, pei, (pei % 2) as u8);
                let mut mbs = body(&hd, content % 2, pei);
                // the last coded block of the picture uses the last zig-zag positions
                if content == 0 && pei % 2 == 1 {
                    if let Some(Mb::Coded { kind, blocks, .. }) = mbs.iter_mut().rev().find(|m| matches!(m, Mb::Coded { .. })) {
                        let v1 = hd.v1();
                        blocks[5].ev = if kind.is_intra() {
                            vec![ev_auto(false, 60, 2, v1), ev_auto(false, 0, -1, v1), ev_auto(true, 0, 1, v1)]
                        } else {
                            vec![ev_auto(false, 61, 2, v1), ev_auto(false, 0, -1, v1), ev_auto(true, 0, 1, v1)]
                        };
                    }
                }
                if content == 2 {
                    mbs.insert(mbs.len() - 1, Mb::Stuffing);
                    mbs.insert(0, Mb::Stuffing);
                    if mbs.len() > 4 {
                        mbs.insert(2, Mb::Stuffing);
                    }
                }
                let pic = Pic { mbs, hdr: hd };
                let bw = encode(&pic);
                let pad = (8 - bw.nbits % 8) % 8;
                v.push(Letter { name: format!("{}{}x{} pei{} c{} pad{}", ["I", "P", "D"][t as usize], w, h, pei, content, pad), bytes: bw.bytes, pad, pic });
            }
        }
    }
    v
}

/// Pictures whose *final syntax element* is each kind of element the macroblock layer can end
/// with, at every padding length 0..7 (k PEI/PSUPP pairs of 9 bits in the header shift the end by
/// k bits). Such a picture, alone in its reader, ends right at the end of the
/// data: nothing may be needed beyond its last bit.
fn tail_letters(mode: Mode, version: u8, ptype: u8, two_mbs: bool) -> Vec<Letter> {
    let v1 = version == 1 && mode == Mode::Sorenson;
    let is_i = ptype == 0;
    let esc = |level: i16| -> Ev {
        let form = if mode != Mode::Sorenson || version == 0 { Form::Esc8 } else if (-64..=63).contains(&level) { Form::Esc7 } else { Form::Esc11 };
        Ev { run: 5, level, form }
    };
    // (name, last macroblock)
    let mut tails: Vec<(String, Mb)> = vec![];
    let intra = |b5: Blk| -> Mb {
        let mut blocks: [Blk; 6] = std::array::from_fn(|b| Blk::dc(40 + 20 * b as u8));
        blocks[5] = b5;
        Mb::Coded { kind: Kind::Intra, dquant: 0, mvd: vec![], blocks }
    };
    let inter = |kind: Kind, mvd: Vec<(i8, i8)>, b5: Option<Blk>| -> Mb {
        let mut blocks: [Blk; 6] = Default::default();
        if let Some(b) = b5 {
            blocks[5] = b;
        }
        Mb::Coded { kind, dquant: if kind.has_q() { -1 } else { 0 }, mvd, blocks }
    };
    let coefs: Vec<(String, Ev)> = vec![
        ("short tcoef 3 bits".into(), ev_auto(true, 0, 1, v1)),
        ("short tcoef long code".into(), ev_auto(true, 40, -1, v1)),
        ("short tcoef mid code".into(), ev_auto(true, 1, 2, v1)),
        ("escape small level".into(), esc(33)),
        ("escape negative level".into(), esc(-64)),
        ("escape wide level".into(), esc(if mode == Mode::Sorenson && version == 1 { 700 } else { 127 })),
        ("escape wide negative level".into(), esc(if mode == Mode::Sorenson && version == 1 { -1023 } else { -127 })),
    ];
    for (n, e) in &coefs {
        let mut b = Blk::dc(90);
        b.ev = vec![e.clone()];
        tails.push((format!("intra block ending in {n}"), intra(b)));
        let mut b2 = Blk::dc(91);
        b2.ev = vec![ev_auto(false, 0, 3, v1), e.clone()];
        tails.push((format!("intra block with two events ending in {n}"), intra(b2)));
    }
    // blocks that are (nearly) full: n events of run 0, the last one short or escape-coded
    for n in [61usize, 62, 63] {
        for (fname, fin) in [("short", ev_auto(true, 0, 1, v1)), ("escape", { let mut e = esc(40); e.run = 0; e })] {
            let mut b = Blk::dc(92);
            b.ev = (0..n - 1).map(|k| ev_auto(false, 0, if k % 2 == 0 { 1 } else { -1 }, v1)).collect();
            b.ev.push(fin.clone());
            tails.push((format!("intra block with {n} events, the last one {fname}"), intra(b)));
        }
    }
    if !is_i {
        for n in [62usize, 63, 64] {
            for (fname, fin) in [("short", ev_auto(true, 0, 1, v1)), ("escape", { let mut e = esc(40); e.run = 0; e })] {
                let mut ev: Vec<Ev> = (0..n - 1).map(|k| ev_auto(false, 0, if k % 2 == 0 { 1 } else { -1 }, v1)).collect();
                ev.push(fin.clone());
                tails.push((format!("inter block with {n} events, the last one {fname}"), inter(Kind::Inter, vec![(0, 1)], Some(Blk { dc: None, ev }))));
            }
        }
    }
    tails.push(("INTRADC".into(), intra(Blk::dc(200))));
    tails.push(("INTRADC 255".into(), intra(Blk::dc(255))));
    if !is_i {
        tails.push(("COD = 1".into(), Mb::NotCoded));
        for mv in [(0i8, 0i8), (0, 1), (3, -2), (-32, 31), (31, -32), (17, 0)] {
            tails.push((format!("MVD {mv:?}"), inter(Kind::Inter, vec![mv], None)));
        }
        tails.push(("MVD after DQUANT".into(), inter(Kind::InterQ, vec![(2, 0)], None)));
        tails.push(("fourth MVD".into(), inter(Kind::Inter4V, vec![(1, 1), (0, 0), (-3, 2), (0, -31)], None)));
        for (n, e) in &coefs {
            tails.push((format!("inter block ending in {n}"), inter(Kind::Inter, vec![(1, 0)], Some(Blk { dc: None, ev: vec![e.clone()] }))));
        }
        let mut late = ev_auto(true, 62, 1, v1);
        late.run = 62;
        tails.push(("inter block ending at position 63".into(), inter(Kind::Inter, vec![(0, 0)], Some(Blk { dc: None, ev: vec![ev_auto(false, 0, 2, v1), late] }))));
    }
    let (w, h) = if two_mbs { (32u16, 16u16) } else { (16, 16) };
    let mut out = vec![];
    for (ti, (name, mb)) in tails.iter().enumerate() {
        for k in 0..8usize {
            let tr = (ti * 8 + k) as u8;
            let hd = hdr(mode, w, h, ptype, tr, k, version);
            let mut mbs: Vec<Mb> = vec![];
            if two_mbs {
                mbs.push(Mb::Stuffing);
                mbs.push(if is_i { Mb::intra_flat(77) } else { Mb::inter((1, -1)) });
            }
            mbs.push(mb.clone());
            let pic = Pic { mbs, hdr: hd };
            let bw = encode(&pic);
            let pad = (8 - bw.nbits % 8) % 8;
            out.push(Letter { name: format!("{}{}x{} v{} ends with {} pad{}", ["I", "P", "D"][ptype as usize], w, h, version, name, pad), bytes: bw.bytes, pad, pic });
        }
    }
    out
}

/// Decode a sequence two ways; returns number of decode calls made.
fn run_seq(rep: &Report, mode: Mode, init: Option<&Letter>, seq: &[&Letter]) -> u64 {
    let opts = if mode == Mode::Sorenson { 1 } else { 0 };
    let mut model = Dec::new(opts); // decoder B (one reader per picture) + reference decoder
    let mut a = H263State::new(options_from_bits(opts));
    let mut stats = CmpStats::default();
    let mut calls = 0;
    let mut steps: Vec<Vec<u8>> = vec![];
    if let Some(i0) = init {
        let _ = model.step_bytes(&i0.pic, &i0.bytes, "C15", &mut stats);
        let _ = decode_bytes(&mut a, &i0.bytes);
        steps.push(i0.bytes.clone());
    }
    let concat: Vec<u8> = seq.iter().flat_map(|l| l.bytes.iter().copied()).collect();
    let names: Vec<&str> = seq.iter().map(|l| l.name.as_str()).collect();
    let replay = |note: &str| {
        let mut s = steps.clone();
        s.push(concat.clone());
        json!({"kind": "stream", "options": opts, "init": steps.iter().map(|b| crate::bits::hex(b)).collect::<Vec<_>>(), "concatenated": crate::bits::hex(&concat), "pictures": names, "note": note})
    };
    let mut rd = H263Reader::from_source(&concat[..]);
    for (i, l) in seq.iter().enumerate() {
        calls += 2;
        let oa = decode_with(&mut a, &mut rd);
        let rb = model.step_bytes(&l.pic, &l.bytes, "C15", &mut stats);
        match (&oa, &rb) {
            (Outcome::Panic(p), _) => {
                rep.violation(&panic_sig(p), format!("sequence {names:?}, call {i}: panic {p}"), replay("panic on the shared reader"));
                return calls;
            }
            (_, Err(f)) => {
                // the per-picture reader already disagrees with the reference decoder
                rep.violation(&f.sig, format!("sequence {names:?}, picture {i} in its own reader: {}", f.what), replay(&f.what));
                return calls;
            }
            (Outcome::Err(_), Ok(None)) => return calls, // both reject (P without reference): the stream cannot advance
            (Outcome::Ok, Ok(None)) => {
                rep.violation("C15/shared-reader-accepts-what-own-reader-rejects", format!("sequence {names:?}, call {i}"), replay("outcome differs"));
                return calls;
            }
            (Outcome::Err(e), Ok(Some(_))) => {
                rep.violation(
                    &format!("C15/shared-reader-rejects-{}", if i == 0 { "first" } else { "later" }),
                    format!("sequence {names:?}: call {i} on the concatenated stream fails with {e}; the same picture in its own reader decodes"),
                    replay("call on the shared reader fails"),
                );
                return calls;
            }
            (Outcome::Ok, Ok(Some(_))) => {
                let (sa, sb) = (last_snap(&a), last_snap(&model.st));
                if sa != sb {
                    rep.violation(
                        "C15/picture-differs",
                        format!("sequence {names:?}: after call {i} the shared-reader decoder and the per-picture decoder hold different pictures (padding after previous picture: {} bit(s))", if i > 0 { seq[i - 1].pad } else { 0 }),
                        replay("pictures differ"),
                    );
                    return calls;
                }
            }
        }
    }
    // the reader must now be at the end of data up to < 8 bits
    let mut left = 0;
    while rd.read_bits::<u8>(1).is_ok() {
        left += 1;
        if left > 64 {
            break;
        }
    }
    if left >= 8 {
        rep.violation("C15/reader-not-at-end", format!("sequence {names:?}: {left}+ bits left in the reader after the last picture"), replay("reader position"));
    }
    calls
}

pub fn run(tier: Tier) -> Report {
    let rep = Report::new("C15", "stream", tier);
    let mut configs: Vec<(Mode, u16, u16)> = vec![(Mode::Sorenson, 16, 16), (Mode::Sorenson, 32, 16), (Mode::Sorenson, 17, 3), (Mode::StdCustom, 16, 16), (Mode::StdCustom, 32, 16)];
    if tier.thorough() {
        configs.push((Mode::StdBaseline, 128, 96));
        configs.push((Mode::Sorenson, 48, 32));
    }
    let maxlen = 3;
    let mut nseq = 0u64;
    let mut pads = [0u64; 8];
    for &(mode, w, h) in &configs {
        let big = w as usize * h as usize > 2000;
        let letters = alphabet(mode, w, h, big);
        for l in &letters {
            pads[l.pad] += 1;
        }
        let init_i = &letters[0];
        // all sequences of length 1..=maxlen (length 3 only over a reduced alphabet for big pictures)
        let n = letters.len();
        let mut seqs: Vec<Vec<usize>> = vec![];
        for a in 0..n {
            seqs.push(vec![a]);
            for b in 0..n {
                seqs.push(vec![a, b]);
                if maxlen >= 3 && !big {
                    for c in 0..n {
                        seqs.push(vec![a, b, c]);
                    }
                }
            }
        }
        if mode == Mode::StdBaseline && !tier.thorough() {
            seqs.retain(|s| s.len() <= 2);
        }
        // thorough: sequences of four pictures over every second letter of the small alphabets
        if tier.thorough() && !big {
            let sub: Vec<usize> = (0..n).step_by(2).collect();
            for &a in &sub {
                for &b in &sub {
                    for &c in &sub {
                        for &d in &sub {
                            seqs.push(vec![a, b, c, d]);
                        }
                    }
                }
            }
        }
        for init in [false, true] {
            let calls: u64 = seqs
                .par_iter()
                .map(|s| {
                    let refs: Vec<&Letter> = s.iter().map(|i| &letters[*i]).collect();
                    run_seq(&rep, mode, if init { Some(init_i) } else { None }, &refs)
                })
                .sum();
            rep.add_transitions(calls);
            rep.add_states(seqs.len() as u64);
            nseq += seqs.len() as u64;
            rep.add_nontrivial(seqs.iter().filter(|s| s.len() >= 2).count() as u64);
        }
        if let Some(l) = letters.get(17) {
            rep.sample(json!({"mode": format!("{mode:?}"), "size": [w, h], "letter": l.name, "bytes": crate::bits::hex(&l.bytes)}));
        }
    }
    // final-element x padding sweep: the picture alone, before another picture, and after one
    {
        let mut tail_pads = std::collections::BTreeMap::<String, [u64; 8]>::new();
        let mut n_tail = 0u64;
        let mut modes: Vec<(Mode, u8)> = vec![(Mode::Sorenson, 0), (Mode::Sorenson, 1), (Mode::StdCustom, 0)];
        if tier.thorough() {
            modes.push((Mode::StdBaseline, 0));
        }
        for &(mode, version) in &modes {
            let types: &[u8] = if mode == Mode::Sorenson { &[0, 1, 2] } else { &[0, 1] };
            for &pt in types {
                for two in [false, true] {
                    if mode == Mode::StdBaseline && two {
                        continue;
                    }
                    if two && !tier.thorough() && pt == 2 {
                        continue;
                    }
                    let letters = if mode == Mode::StdBaseline { vec![] } else { tail_letters(mode, version, pt, two) };
                    let (w, h) = if two { (32u16, 16u16) } else { (16, 16) };
                    let ihdr = hdr(mode, w, h, 0, 250, 0, version);
                    let ipic = Pic { mbs: body(&ihdr, 0, 1), hdr: ihdr };
                    let init = Letter { name: "I".into(), bytes: encode_bytes(&ipic), pad: 0, pic: ipic };
                    for l in &letters {
                        let key = l.name.split(" pad").next().unwrap_or("").split(" ends with ").nth(1).unwrap_or("").to_string();
                        tail_pads.entry(key).or_insert([0; 8])[l.pad] += 1;
                    }
                    let calls: u64 = letters
                        .par_iter()
                        .map(|l| {
                            let mut c = run_seq(&rep, mode, Some(&init), &[l]);
                            c += run_seq(&rep, mode, Some(&init), &[l, &init]);
                            c += run_seq(&rep, mode, None, &[&init, l]);
                            c += run_seq(&rep, mode, Some(&init), &[l, l]);
                            c
                        })
                        .sum();
                    rep.add_transitions(calls);
                    rep.add_states(4 * letters.len() as u64);
                    n_tail += 4 * letters.len() as u64;
                }
            }
        }
        rep.extra("final_element_sequences", json!(n_tail));
        rep.extra("final_elements", json!(tail_pads.len()));
        for (k, p) in &tail_pads {
            if p.iter().any(|c| *c == 0) {
                rep.violation("C15/machinery-tail-padding-coverage", format!("final element '{k}' does not occur at every padding length: {p:?}"), json!({"kind": "machinery"}));
            }
        }
    }
    // standard mode: a picture that stops early (fewer macroblocks than its format holds) and is
    // terminated by the next picture's start code - the resynchronisation probe of the macroblock
    // loop. Whenever the decoder accepts such a picture from its own reader, the same bytes in a
    // shared reader must give the same picture and leave the reader at the following picture, which
    // must then decode as from its own reader (every padding length, several temporal references
    // of the following picture, since the probe reads the bits right behind the start code).
    {
        let mode = Mode::StdCustom;
        // (the early-ended picture is an I or a P picture and carries 0, 1 or 2 stuffing codewords
        // behind its last transmitted macroblock: the probe then has to look past them)
        let mut work: Vec<(u16, u16, usize, usize, u8, u8, u8, usize)> = vec![];
        for &(w, h, total) in &[(32u16, 16u16, 2usize), (48, 32, 6)] {
            for sent in 0..total {
                for pei in 0..8usize {
                    for next_type in [0u8, 1] {
                        for next_tr in [0u8, 9, 128, 255] {
                            for short_type in [1u8, 0] {
                                for stuff in 0..3usize {
                                    work.push((w, h, sent, pei, next_type, next_tr, short_type, stuff));
                                }
                            }
                        }
                    }
                }
            }
        }
        let n_early = std::sync::atomic::AtomicU64::new(0);
        let own_refused = std::sync::atomic::AtomicU64::new(0);
        work.par_iter().for_each(|&(w, h, sent, pei, next_type, next_tr, short_type, stuff)| {
            let ihdr = hdr(mode, w, h, 0, 250, 0, 0);
            let ipic = Pic { mbs: body(&ihdr, 0, 1), hdr: ihdr };
            let shdr_ = hdr(mode, w, h, short_type, 7, pei, 0);
            let mut mbs = body(&shdr_, 0, sent + pei);
            mbs.truncate(sent);
            for _ in 0..stuff {
                mbs.push(Mb::Stuffing);
            }
            let short = Pic { mbs, hdr: shdr_ };
            let nhdr = hdr(mode, w, h, next_type, next_tr, 0, 0);
            let next = Pic { mbs: body(&nhdr, 1, 3), hdr: nhdr };
            let (bi, bs, bn) = (encode_bytes(&ipic), encode_bytes(&short), encode_bytes(&next));
            let concat: Vec<u8> = bs.iter().chain(bn.iter()).copied().collect();
            let replay = json!({"kind": "stream", "options": 0, "init": [crate::bits::hex(&bi)], "concatenated": crate::bits::hex(&concat), "pictures": ["early-ended picture", "next"], "note": format!("{w}x{h} type-{short_type} picture: {sent} macroblocks sent followed by {stuff} stuffing codewords, {pei} PEI bytes, next picture type {next_type} tr {next_tr}")});
            let mut a = H263State::new(options_from_bits(0));
            let mut b = H263State::new(options_from_bits(0));
            let _ = decode_bytes(&mut a, &bi);
            let _ = decode_bytes(&mut b, &bi);
            n_early.fetch_add(1, std::sync::atomic::Ordering::Relaxed);
            let ob = decode_bytes(&mut b, &bs);
            if !ob.is_ok() {
                own_refused.fetch_add(1, std::sync::atomic::Ordering::Relaxed);
                return;
            }
            let mut rd = H263Reader::from_source(&concat[..]);
            match decode_with(&mut a, &mut rd) {
                Outcome::Panic(p) => rep.violation(&panic_sig(&p), format!("early-ended picture before another one: panic {p}"), replay),
                Outcome::Err(e) => rep.violation("C15/shared-reader-rejects-early-ended-picture", format!("{w}x{h} type-{short_type} picture with {sent} macroblocks sent and {stuff} stuffing codewords behind them ({pei} PEI bytes): decodes from its own reader, fails with {e} when the next picture (tr {next_tr}) follows in the same reader"), replay),
                Outcome::Ok => {
                    if last_snap(&a) != last_snap(&b) {
                        rep.violation("C15/early-ended-picture-differs", format!("{w}x{h} type-{short_type} picture with {sent} macroblocks sent and {stuff} stuffing codewords: accepted from the shared reader, but differs from the same bytes in their own reader"), replay);
                        return;
                    }
                    let o2 = decode_with(&mut a, &mut rd);
                    let o2b = decode_bytes(&mut b, &bn);
                    if o2.is_ok() != o2b.is_ok() || (o2.is_ok() && last_snap(&a) != last_snap(&b)) {
                        rep.violation("C15/picture-after-early-ended-picture", format!("{w}x{h}: the type-{short_type} picture with {sent} macroblocks sent and {stuff} stuffing codewords behind them ({pei} PEI bytes) was accepted from the shared reader; the following picture (tr {next_tr}) then gives {} there and {} from its own reader", o2.short(), o2b.short()), replay);
                    }
                }
            }
        });
        rep.add_transitions(2 * n_early.load(std::sync::atomic::Ordering::Relaxed));
        rep.add_states(n_early.load(std::sync::atomic::Ordering::Relaxed));
        rep.extra("early_ended_then_next_sequences", json!(n_early.load(std::sync::atomic::Ordering::Relaxed)));
        rep.extra("early_ended_pictures_refused_in_their_own_reader", json!(own_refused.load(std::sync::atomic::Ordering::Relaxed)));
    }
    // larger pictures (80 macroblocks) ending in a run of T not-coded macroblocks, every T, followed
    // by another picture in the same reader (run-length treatment of skipped macroblocks)
    {
        let mut n_tail = 0u64;
        for &mode in &[Mode::Sorenson, Mode::StdCustom] {
            let (w, h) = (160u16, 128u16);
            let ihdr = hdr(mode, w, h, 0, 251, 0, 0);
            let ipic = Pic { mbs: body(&ihdr, 1, 2), hdr: ihdr };
            let init = Letter { name: "I".into(), bytes: encode_bytes(&ipic), pad: 0, pic: ipic };
            let types: &[u8] = if mode == Mode::Sorenson { &[1, 2] } else { &[1] };
            let mut letters = vec![];
            for &pt in types {
                for t in 0..=80usize {
                    if !tier.thorough() && t > 40 && t % 4 != 0 && t < 76 {
                        continue;
                    }
                    let hd = hdr(mode, w, h, pt, (t as u8).wrapping_mul(3), t % 3, 0);
                    let mut mbs = body(&hd, 0, t);
                    for m in mbs.iter_mut().skip(80 - t) {
                        *m = Mb::NotCoded;
                    }
                    let pic = Pic { mbs, hdr: hd };
                    let bw = encode(&pic);
                    let pad = (8 - bw.nbits % 8) % 8;
                    letters.push(Letter { name: format!("{}160x128 with {t} trailing not-coded macroblocks pad{pad}", ["I", "P", "D"][pt as usize]), bytes: bw.bytes, pad, pic });
                }
            }
            let calls: u64 = letters.par_iter().map(|l| run_seq(&rep, mode, Some(&init), &[l, &init]) + run_seq(&rep, mode, Some(&init), &[l, l])).sum();
            rep.add_transitions(calls);
            rep.add_states(2 * letters.len() as u64);
            n_tail += 2 * letters.len() as u64;
        }
        rep.extra("not_coded_tail_sequences", json!(n_tail));
    }
    // standard-mode streams that mix header kinds (all sub-QCIF, so the format value never changes):
    // a PLUSPTYPE picture - with and without unrestricted vectors switched on - followed by
    // plain-PTYPE pictures and the other way round, predicted pictures with vectors of every code
    // length in their last macroblocks, every padding length through the PEI count
    {
        let plus = |inter: bool, tr: u8, umv: bool, pei: usize| -> Hdr {
            let mut h = StdHdr::custom(128, 96, inter, tr, 6);
            {
                let pl = h.plus.as_mut().unwrap();
                pl.opp.srcfmt = 1;
                if umv {
                    pl.opp.modes |= 0x200;
                    pl.uui = 1;
                }
            }
            h.pei = (0..pei).map(|k| (0x21 * (k + 1)) as u8 ^ tr).collect();
            Hdr::Std(h)
        };
        let plain = |inter: bool, tr: u8, pei: usize| -> Hdr {
            let mut h = StdHdr::baseline(1, inter, tr, 6);
            h.pei = (0..pei).map(|k| (0x13 * (k + 1)) as u8 ^ tr).collect();
            Hdr::Std(h)
        };
        let letter = |hd: Hdr, salt: usize| -> Letter {
            let mut mbs = body(&hd, 0, salt);
            if hd.pic_type() != PicType::I {
                // the last three macroblocks carry vectors whose code words have different lengths
                let n = mbs.len();
                for (k, d) in [(2i8, 0i8), (-5, 3), (1, -12)].iter().enumerate() {
                    mbs[n - 3 + k] = Mb::Coded { kind: Kind::Inter, dquant: 0, mvd: vec![(d.0 + salt as i8 % 3, d.1)], blocks: Default::default() };
                }
            }
            let pic = Pic { mbs, hdr: hd };
            let bw = encode(&pic);
            let pad = (8 - bw.nbits % 8) % 8;
            Letter { name: format!("{} pad{}", describe(&pic).chars().take(60).collect::<String>(), pad), bytes: bw.bytes, pad, pic }
        };
        let mut seqs: Vec<Vec<Letter>> = vec![];
        for pei in 0..8usize {
            for umv in [true, false] {
                seqs.push(vec![letter(plus(false, 0, umv, pei), pei), letter(plain(true, 1, pei), pei), letter(plain(true, 2, (pei + 3) % 8), pei + 1), letter(plain(false, 3, pei), pei)]);
                seqs.push(vec![letter(plain(false, 0, pei), pei), letter(plus(true, 1, umv, pei), pei), letter(plain(true, 2, pei), pei + 1), letter(plus(true, 3, umv, (pei + 5) % 8), pei)]);
            }
        }
        let calls: u64 = seqs.par_iter().map(|sq| run_seq(&rep, Mode::StdBaseline, None, &sq.iter().collect::<Vec<_>>())).sum();
        rep.add_transitions(calls);
        rep.add_states(seqs.len() as u64);
        rep.extra("mixed_header_kind_sequences", json!(seqs.len()));
    }
    // a stuffing codeword in front of every macroblock kind x chroma coded-block pattern (the bits that
    // follow it differ by kind; in predicted pictures they start with the COD bit): two stuffing
    // codewords, then the macroblock, as the first, a middle and the last macroblock of a predicted
    // picture between two intra pictures, in both modes
    {
        let mut seqs: Vec<(Mode, Vec<Letter>)> = vec![];
        for mode in [Mode::Sorenson, Mode::StdCustom] {
            for kind in [Kind::Inter, Kind::InterQ, Kind::Inter4V, Kind::Intra, Kind::IntraQ] {
                for cbpc in 0..4usize {
                    for place in 0..3usize {
                        let mk = |ptype: u8, tr: u8, stuffed: bool| -> Letter {
                            let hd = hdr(mode, 48, 16, ptype, tr, (tr % 4) as usize, 0);
                            let v1 = hd.v1();
                            let mut mbs = body(&hd, 1, tr as usize);
                            if stuffed {
                                let mut blocks: [Blk; 6] = Default::default();
                                if kind.is_intra() {
                                    blocks = std::array::from_fn(|b| Blk::dc(40 + 20 * b as u8));
                                }
                                if cbpc & 2 != 0 {
                                    blocks[4].ev = vec![ev_auto(true, 2, 3, v1)];
                                }
                                if cbpc & 1 != 0 {
                                    blocks[5].ev = vec![ev_auto(true, 0, -2, v1)];
                                }
                                blocks[1].ev = vec![ev_auto(true, 1, 2, v1)];
                                let nv = if matches!(kind, Kind::Inter4V) { 4 } else if kind.is_intra() { 0 } else { 1 };
                                let dq = if matches!(kind, Kind::InterQ | Kind::IntraQ) { 1 } else { 0 };
                                mbs[place] = Mb::Coded { kind, dquant: dq, mvd: (0..nv).map(|k| (k as i8 - 1, 1)).collect(), blocks };
                                mbs.insert(place, Mb::Stuffing);
                                mbs.insert(place, Mb::Stuffing);
                            }
                            let pic = Pic { mbs, hdr: hd };
                            let bw = encode(&pic);
                            let pad = (8 - bw.nbits % 8) % 8;
                            Letter { name: format!("{}48x16{} pad{}", ["I", "P", "D"][ptype as usize], if stuffed { format!(" with two stuffing codewords before a {kind:?} macroblock (CBPC {cbpc:02b}) at position {place}") } else { String::new() }, pad), bytes: bw.bytes, pad, pic }
                        };
                        seqs.push((mode, vec![mk(0, 1, false), mk(1, 2, true), mk(0, 3, false)]));
                    }
                }
            }
        }
        let calls: u64 = seqs.par_iter().map(|(mode, sq)| run_seq(&rep, *mode, None, &sq.iter().collect::<Vec<_>>())).sum();
        rep.add_transitions(calls);
        rep.add_states(seqs.len() as u64);
        rep.extra("stuffing_before_every_macroblock_kind_sequences", json!(seqs.len()));
    }
    // scale: one-row and one-column pictures of every lattice dimension (powers of two and their
    // neighbours, 3*2^k, primes, the largest values a 16-bit size field can carry), I, P, I in one reader
    {
        let dims = dim_lattice();
        let sizes: Vec<(u16, u16)> = dims.iter().flat_map(|&d| [(d, 1u16), (1u16, d)]).collect();
        let calls: u64 = sizes
            .par_iter()
            .map(|&(w, h)| {
                let mk = |ptype: u8, tr: u8, content: usize| -> Letter {
                    let hd = hdr(Mode::Sorenson, w, h, ptype, tr, (tr % 3) as usize, 0);
                    let pic = Pic { mbs: body(&hd, content, tr as usize), hdr: hd };
                    let bw = encode(&pic);
                    let pad = (8 - bw.nbits % 8) % 8;
                    Letter { name: format!("{}{}x{} pad{}", ["I", "P", "D"][ptype as usize], w, h, pad), bytes: bw.bytes, pad, pic }
                };
                let (i0, p1, i2) = (mk(0, 1, 0), mk(1, 2, 1), mk(0, 3, 1));
                run_seq(&rep, Mode::Sorenson, None, &[&i0, &p1, &i2])
            })
            .sum();
        rep.add_transitions(calls);
        rep.add_states(sizes.len() as u64);
        rep.extra("one_row_and_one_column_sequences_over_the_dimension_lattice", json!(sizes.len()));
    }
    // delivery in two pieces: I, P, I (Sorenson also I, D, P) sequences through one reader over a
    // source that first holds only the first k bytes of the concatenation, for every k; the call that
    // runs dry is repeated once the rest has arrived and everything must come out as in one piece
    // (the break may fall inside a start code, a header field, a macroblock or the padding)
    {
        let mut seqs: Vec<(Mode, String, Vec<Vec<u8>>)> = vec![];
        for mode in [Mode::Sorenson, Mode::StdCustom] {
            for &(w, h) in &[(16u16, 16u16), (32, 16)] {
                let types: &[&[u8]] = if mode == Mode::Sorenson { &[&[0, 1, 0], &[0, 2, 1]] } else { &[&[0, 1, 0]] };
                for tys in types {
                    let pics: Vec<Vec<u8>> = tys
                        .iter()
                        .enumerate()
                        .map(|(k, &pt)| {
                            let hd = hdr(mode, w, h, pt, 3 + k as u8, k % 3, 0);
                            encode_bytes(&Pic { mbs: body(&hd, 1, k + 1), hdr: hd })
                        })
                        .collect();
                    seqs.push((mode, format!("{mode:?} {w}x{h} types {tys:?}"), pics));
                }
            }
        }
        let n_two = std::sync::atomic::AtomicU64::new(0);
        let n_early = std::sync::atomic::AtomicU64::new(0);
        seqs.par_iter().for_each(|(mode, name, pics)| {
            let opts = if *mode == Mode::Sorenson { 1 } else { 0 };
            let concat: Vec<u8> = pics.iter().flatten().copied().collect();
            // one-piece delivery
            let mut st = H263State::new(options_from_bits(opts));
            let mut rd = H263Reader::from_source(&concat[..]);
            let mut expect = vec![];
            for i in 0..pics.len() {
                if !decode_with(&mut st, &mut rd).is_ok() {
                    rep.violation("C15/machinery-two-piece-base-sequence", format!("{name}: picture {i} does not decode in one piece"), json!({"kind": "machinery"}));
                    return;
                }
                expect.push(last_snap(&st));
            }
            for split in 1..concat.len() {
                n_two.fetch_add(1, std::sync::atomic::Ordering::Relaxed);
                match deliver_in_two(opts, &[], &concat, split, &expect) {
                    Ok(true) => {}
                    Ok(false) => {
                        n_early.fetch_add(1, std::sync::atomic::Ordering::Relaxed);
                    }
                    Err(e) => rep.violation("C15/delivery-in-two-pieces", format!("{name}: {e}"), json!({"kind": "stream-two-pieces", "options": opts, "concatenated": crate::bits::hex(&concat), "pictures": pics.len(), "split": split, "error": e})),
                }
            }
        });
        let n = n_two.load(std::sync::atomic::Ordering::Relaxed);
        rep.add_transitions(n);
        rep.add_states(n);
        rep.extra("two_piece_deliveries", json!(n));
        rep.extra("two_piece_deliveries_accepted_early", json!(n_early.load(std::sync::atomic::Ordering::Relaxed)));
    }
    rep.extra("sequences", json!(nseq));
    rep.extra("letters_by_padding_bits", json!(pads));
    if pads.iter().any(|p| *p == 0) {
        rep.violation("C15/machinery-padding-coverage", format!("picture alphabet does not realise every padding length 0..7: {pads:?}"), json!({"kind": "machinery"}));
    }
    rep.set_rule(&format!(
        "all sequences of 1..={maxlen} pictures (thorough: also of four pictures over every second letter) from an alphabet of type {{I,P,D}} x 8 PEI counts (every padding length 0..7) x bodies (last macroblock coded with AC data / not coded / with MCBPC stuffing codewords) per size, from a fresh decoder and after an I picture, in Sorenson and standard mode: decoder A reads the concatenation from one reader, decoder B gets one reader per picture; A, B and the reference decoder must agree after every call and A's reader must end within 8 bits of the end; plus pictures ending in each kind of final syntax element (every TCOEF form incl. each escape width, INTRADC, COD, each MVD shape, after DQUANT, position 63) at every padding length 0..7, alone / before / after another picture; standard-mode pictures that stop early before the next start code (whenever their own reader accepts them the shared reader must too, with the same picture, and the next picture decodes); 80-macroblock pictures ending in every number of not-coded macroblocks, followed by another picture; standard-mode sequences mixing PLUSPTYPE pictures (with and without unrestricted vectors) and plain-PTYPE pictures at every padding length; stuffing codewords in front of every macroblock kind x chroma pattern x position of a predicted picture between two intra pictures; I, P, I sequences of one-row and one-column pictures for every dimension of the lattice (powers of two and neighbours, 3*2^k, primes, 65520, 65521, 65534, 65535); non-trivial = sequences of two or more pictures"
    ));
    rep.assume("pictures of one sequence share a size (prediction across sizes is outside the valid-stream premise)");
    rep
}

pub fn replay(case: &serde_json::Value) {
    if case["kind"] == "stream-two-pieces" {
        let opts = case["options"].as_u64().unwrap_or(1) as u8;
        let concat = crate::bits::unhex(case["concatenated"].as_str().unwrap_or(""));
        let n = case["pictures"].as_u64().unwrap_or(1) as usize;
        let split = case["split"].as_u64().unwrap_or(1) as usize;
        let init: Vec<Vec<u8>> = case["init"].as_array().map(|a| a.iter().map(|v| crate::bits::unhex(v.as_str().unwrap_or(""))).collect()).unwrap_or_default();
        let mut st = H263State::new(options_from_bits(opts));
        for b in &init {
            let _ = decode_bytes(&mut st, b);
        }
        let mut rd = H263Reader::from_source(&concat[..]);
        let mut expect = vec![];
        for _ in 0..n {
            let _ = decode_with(&mut st, &mut rd);
            expect.push(last_snap(&st));
        }
        let init_refs: Vec<&[u8]> = init.iter().map(|b| &b[..]).collect();
        println!("{n} pictures after {} earlier ones, {} bytes, first delivery {split} bytes, retry after the rest arrived -> {:?}", init.len(), concat.len(), deliver_in_two(opts, &init_refs, &concat, split, &expect));
        return;
    }
    let opts = case["options"].as_u64().unwrap_or(1) as u8;
    let mut st = H263State::new(options_from_bits(opts));
    for s in case["init"].as_array().unwrap() {
        let b = crate::bits::unhex(s.as_str().unwrap());
        println!("init picture: {}", decode_bytes(&mut st, &b).short());
    }
    let concat = crate::bits::unhex(case["concatenated"].as_str().unwrap());
    let n = case["pictures"].as_array().map(|a| a.len()).unwrap_or(1);
    let mut rd = H263Reader::from_source(&concat[..]);
    for i in 0..n {
        let o = decode_with(&mut st, &mut rd);
        println!("call {i} on the shared reader: {} last={:?}", o.short(), last_snap(&st).map(|s| (s.dims, s.tr, s.ptype.clone(), format!("{:016x}", s.hash()))));
    }
}
