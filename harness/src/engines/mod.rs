use crate::evidence::{Report, Tier};

pub mod atomic;
pub mod bitreader;
pub mod common;
pub mod crash;
pub mod dequant;
pub mod headers;
#[cfg(feature = "internals")]
pub mod idct;
pub mod inter;
pub mod intra;
pub mod pipeline;
pub mod refgraph;
pub mod stream;
pub mod deblock;
pub mod determinism;
pub mod yuv;

pub fn run(id: &str, tier: Tier) -> Option<Report> {
    Some(match id {
        "C09" => deblock::run_c09(tier),
        "C16" => deblock::run_c16(tier),
        "C14" => bitreader::run(tier),
        "C02" => intra::run(tier),
        "C03" => inter::run_c03(tier),
        "C12" => inter::run_c12(tier),
        #[cfg(feature = "internals")]
        "C10" => idct::run(tier),
        "C11" => dequant::run(tier),
        "C04" => refgraph::run(tier),
        "C15" => stream::run(tier),
        "C13" => pipeline::run(tier),
        "C05" => atomic::run(tier),
        "C06" => headers::run(tier),
        "C01" => crash::run(tier),
        "C17" => determinism::run(tier),
        "C07" => yuv::run_c07(tier),
        "C08" => yuv::run_c08(tier),
        _ => return None,
    })
}

pub fn worker_entry(args: &[String]) -> i32 {
    crash::worker_entry(args)
}

pub fn replay_file(path: &str) -> i32 {
    let s = match std::fs::read_to_string(path) {
        Ok(s) => s,
        Err(e) => {
            eprintln!("cannot read {path}: {e}");
            return 2;
        }
    };
    let doc: serde_json::Value = match serde_json::from_str(&s) {
        Ok(v) => v,
        Err(e) => {
            eprintln!("bad replay file: {e}");
            return 2;
        }
    };
    println!("property {} signature {}", doc["property"], doc["signature"]);
    println!("recorded: {}", doc["what"]);
    let case = &doc["case"];
    match case["kind"].as_str().unwrap_or("") {
        "yuv" => yuv::replay(case),
        "reader" | "reader-long" | "reader-sc" | "reader-type" | "reader-overlong" | "reader-fault" => bitreader::replay(case),
        "interleaving" => determinism::replay(case),
        "header" => headers::replay(case),
        "split" | "large" => atomic::replay(case),
        "stream" | "stream-two-pieces" => stream::replay(case),
        "decode" => common::replay_decode(case),
        "deblock" => deblock::replay(case),
        k => {
            println!("no replayer for case kind {k:?}; the case is self-describing JSON");
        }
    }
    0
}
