//! C10: the inverse DCT against the Annex A (IEEE 1180 style) procedure and the sparse shortcuts.

use crate::evidence::{catch, panic_sig, Report, Tier};
use crate::refdec::idct_ideal;
use h263_rs::verif::{idct_channel, DecodedDctBlock};
use rayon::prelude::*;
use serde_json::json;
use std::f64::consts::PI;

/// The generator prescribed by IEEE 1180 / H.263 Annex A (32-bit `long`).
pub struct Ieee(pub i32);
impl Ieee {
    pub fn next(&mut self, l: i32, h: i32) -> i32 {
        self.0 = self.0.wrapping_mul(1103515245).wrapping_add(12345);
        let i = self.0 & 0x7ffffffe;
        let x = (i as f64) / (0x7fffffff as f64) * ((l + h + 1) as f64);
        (x as i32) - l
    }
}

fn fdct(p: &[[i32; 8]; 8]) -> [[i32; 8]; 8] {
    let mut o = [[0i32; 8]; 8];
    for v in 0..8 {
        for u in 0..8 {
            let mut s = 0.0;
            for y in 0..8 {
                for x in 0..8 {
                    s += p[y][x] as f64 * ((2 * x + 1) as f64 * u as f64 * PI / 16.0).cos() * ((2 * y + 1) as f64 * v as f64 * PI / 16.0).cos();
                }
            }
            let cu = if u == 0 { 0.5f64.sqrt() } else { 1.0 };
            let cv = if v == 0 { 0.5f64.sqrt() } else { 1.0 };
            o[v][u] = ((s * cu * cv / 4.0).round() as i32).clamp(-2048, 2047);
        }
    }
    o
}

/// Run one coefficient block through the real routine; returns the residual per sample in
/// -255..=255 (the value -256 is only observable as -255) or a panic message.
pub fn run_block(b: &DecodedDctBlock) -> Result<[[i32; 8]; 8], String> {
    let mut out = [[0i32; 8]; 8];
    let mut lo = [0u8; 64];
    let mut hi = [255u8; 64];
    // `&mut` re-borrows as shared if the routine takes `&[_]`, so either signature builds; a fresh
    // array per call, in case the routine consumes its input
    let mut blk = [*b];
    let mut blk2 = [*b];
    catch(|| {
        idct_channel(&mut blk, &mut lo, 1, 8);
        idct_channel(&mut blk2, &mut hi, 1, 8);
    })?;
    for y in 0..8 {
        for x in 0..8 {
            let (a, c) = (lo[y * 8 + x] as i32, hi[y * 8 + x] as i32);
            out[y][x] = if a > 0 { a } else { c - 255 };
            // consistency of the two observations where both are unclipped
            if a > 0 && a < 255 && c != 255 {
                return Err(format!("residual observed as {a} over prediction 0 but {} over prediction 255", c - 255));
            }
        }
    }
    Ok(out)
}

fn full(c: &[[i32; 8]; 8]) -> DecodedDctBlock {
    let mut f = [[0f32; 8]; 8];
    for v in 0..8 {
        for u in 0..8 {
            f[v][u] = c[v][u] as f32;
        }
    }
    DecodedDctBlock::Full(f)
}

fn reference(c: &[[i32; 8]; 8]) -> [[i32; 8]; 8] {
    let id = idct_ideal(c);
    let mut o = [[0i32; 8]; 8];
    for y in 0..8 {
        for x in 0..8 {
            // -256 cannot be told from -255 through a u8 plane
            o[y][x] = (id[y][x].round() as i32).clamp(-255, 255);
        }
    }
    o
}

#[derive(Default, Clone)]
struct Acc {
    n: u64,
    peak: i32,
    sum: [[i64; 8]; 8],
    sq: [[i64; 8]; 8],
}

fn annex_a_range(rep: &Report, seed: i32, l: i32, h: i32, negate: bool, nblocks: usize) {
    // generate sequentially (the generator is a single stream), evaluate in parallel
    let mut g = Ieee(seed);
    let blocks: Vec<[[i32; 8]; 8]> = (0..nblocks)
        .map(|_| {
            let mut p = [[0i32; 8]; 8];
            for y in 0..8 {
                for x in 0..8 {
                    let v = g.next(l, h);
                    p[y][x] = if negate { -v } else { v };
                }
            }
            fdct(&p)
        })
        .collect();
    let acc = blocks
        .par_iter()
        .map(|c| {
            let mut a = Acc::default();
            match run_block(&full(c)) {
                Err(p) => rep.violation(&panic_sig(&p), format!("IDCT failed on an Annex A block: {p}"), json!({"kind": "idct", "coefficients": c})),
                Ok(t) => {
                    let r = reference(c);
                    a.n = 1;
                    for y in 0..8 {
                        for x in 0..8 {
                            let e = t[y][x] - r[y][x];
                            a.peak = a.peak.max(e.abs());
                            a.sum[y][x] += e as i64;
                            a.sq[y][x] += (e * e) as i64;
                            if e.abs() > 1 {
                                rep.violation("C10/annex-a-peak", format!("sample ({x},{y}) differs by {e} from the double-precision reference (range -{l}..{h}{})", if negate { ", negated" } else { "" }), json!({"kind": "idct", "coefficients": c}));
                            }
                        }
                    }
                }
            }
            a
        })
        .reduce(Acc::default, |mut a, b| {
            a.n += b.n;
            a.peak = a.peak.max(b.peak);
            for y in 0..8 {
                for x in 0..8 {
                    a.sum[y][x] += b.sum[y][x];
                    a.sq[y][x] += b.sq[y][x];
                }
            }
            a
        });
    rep.add_transitions(2 * nblocks as u64);
    rep.add_states(nblocks as u64);
    let n = acc.n.max(1) as f64;
    let (mut pmse, mut pme, mut omse, mut ome) = (0f64, 0f64, 0f64, 0f64);
    for y in 0..8 {
        for x in 0..8 {
            let mse = acc.sq[y][x] as f64 / n;
            let me = acc.sum[y][x] as f64 / n;
            pmse = pmse.max(mse);
            pme = pme.max(me.abs());
            omse += mse / 64.0;
            ome += me / 64.0;
        }
    }
    let name = format!("range(-{l}..{h}){}{}", if negate { " negated" } else { "" }, if seed != 1 { format!(" seed {seed}") } else { String::new() });
    rep.extra(&format!("annex_a {name}"), json!({"blocks": acc.n, "peak": acc.peak, "worst_position_mse": pmse, "overall_mse": omse, "worst_position_mean": pme, "overall_mean": ome}));
    let case = json!({"kind": "idct-annex-a", "seed": seed, "L": l, "H": h, "negate": negate, "blocks": nblocks});
    if pmse > 0.06 {
        rep.violation("C10/annex-a-position-mse", format!("{name}: per-position mean square error {pmse:.4} > 0.06"), case.clone());
    }
    if omse > 0.02 {
        rep.violation("C10/annex-a-overall-mse", format!("{name}: overall mean square error {omse:.4} > 0.02"), case.clone());
    }
    if pme > 0.015 {
        rep.violation("C10/annex-a-position-mean", format!("{name}: per-position mean error {pme:.4} > 0.015"), case.clone());
    }
    if ome.abs() > 0.0015 {
        rep.violation("C10/annex-a-overall-mean", format!("{name}: overall mean error {ome:.5} > 0.0015"), case);
    }
}

fn check_shape(rep: &Report, what: &str, blk: &DecodedDctBlock, c: &[[i32; 8]; 8], informational: &std::sync::atomic::AtomicU64) {
    match run_block(blk) {
        Err(p) => rep.violation(&panic_sig(&p), format!("{what}: {p}"), json!({"kind": "idct", "shape": what, "coefficients": c})),
        Ok(t) => {
            let r = reference(c);
            let id = idct_ideal(c);
            for y in 0..8 {
                for x in 0..8 {
                    let e = t[y][x] - r[y][x];
                    if e.abs() > 1 {
                        rep.violation(&format!("C10/shortcut-peak-{}", what.split(' ').next().unwrap()), format!("{what}: sample ({x},{y}) = {} but the reference gives {} (ideal {:.4})", t[y][x], r[y][x], id[y][x]), json!({"kind": "idct", "shape": what, "coefficients": c}));
                        return;
                    }
                    if e != 0 {
                        let fr = id[y][x] - id[y][x].floor();
                        if (fr - 0.5).abs() > 0.01 && id[y][x].abs() < 255.0 {
                            informational.fetch_add(1, std::sync::atomic::Ordering::Relaxed);
                        }
                    }
                }
            }
        }
    }
}

/// Call histories with *fresh* content: a block whose coefficients the thread has never seen is
/// first transformed where only part of it (or nothing) lies inside the plane, then again where all
/// of it is visible - in a later call or later in the same plane - and the other way round. Every
/// scenario runs on its own new thread with its own coefficient vector; the expected samples are
/// the same block transformed alone on yet another new thread.
fn fresh_content_histories(rep: &Report) {
    #[derive(Clone)]
    struct Call {
        w: usize,
        h: usize,
        cols: usize,
        blocks: Vec<DecodedDctBlock>,
        is_u: Vec<bool>,
    }
    let alone = |b: DecodedDctBlock| -> Vec<u8> {
        std::thread::spawn(move || {
            let mut out = vec![100u8; 64];
            let mut blk = [b];
            let _ = catch(|| idct_channel(&mut blk, &mut out, 1, 8));
            out
        })
        .join()
        .unwrap_or_default()
    };
    let mut n = 0u64;
    let mut salt = 0u32;
    for shape in 0..4usize {
        for v in 0..8usize {
            for scenario in 0..4usize {
                salt += 1;
                let f = |k: u32| -> f32 { (((salt * 37 + k * 101) % 400) as f32) - 200.0 };
                let vecu: [f32; 8] = [600.0 + f(0), f(1), f(2), 0.0, f(3), 0.0, 0.0, f(4)];
                let veca: [f32; 8] = [300.0 + f(5), f(6), 0.0, f(7), 0.0, 0.0, f(8), 0.0];
                let mk = |v8: [f32; 8]| -> DecodedDctBlock {
                    match shape {
                        0 => DecodedDctBlock::Horiz(v8),
                        1 => DecodedDctBlock::Vert(v8),
                        2 => DecodedDctBlock::Dc(v8[0]),
                        _ => {
                            let mut m = [[0f32; 8]; 8];
                            m[0] = v8;
                            m[3][2] = v8[1];
                            DecodedDctBlock::Full(m)
                        }
                    }
                };
                let (u, a) = (mk(vecu), mk(veca));
                // the cropped occurrence: v visible columns (rows for the column shape); v = 0 puts
                // the block entirely outside the plane
                let vertical = shape == 1;
                let cropped: Call = if v == 0 {
                    if vertical {
                        Call { w: 8, h: 8, cols: 1, blocks: vec![a, u], is_u: vec![false, true] }
                    } else {
                        Call { w: 8, h: 8, cols: 2, blocks: vec![a, u], is_u: vec![false, true] }
                    }
                } else if vertical {
                    Call { w: 8, h: v, cols: 1, blocks: vec![u], is_u: vec![true] }
                } else {
                    Call { w: v, h: 8, cols: 1, blocks: vec![u], is_u: vec![true] }
                };
                let whole = Call { w: 8, h: 8, cols: 1, blocks: vec![u], is_u: vec![true] };
                let calls: Vec<Call> = match scenario {
                    0 => vec![cropped.clone(), whole.clone()],
                    1 => vec![whole.clone(), cropped.clone(), whole.clone()],
                    2 => {
                        // one plane: [a, u cropped to v columns / u whole, a cropped] (row shapes), or
                        // the transposed arrangement for the column shape read in raster order
                        if v == 0 {
                            vec![cropped.clone(), cropped.clone(), whole.clone()]
                        } else if vertical {
                            vec![Call { w: 16, h: v, cols: 2, blocks: vec![a, u], is_u: vec![false, true] }, Call { w: 16, h: 8, cols: 2, blocks: vec![u, a], is_u: vec![true, false] }]
                        } else {
                            vec![Call { w: 8 + v, h: 16, cols: 2, blocks: vec![a, u, u, a], is_u: vec![false, true, true, false] }]
                        }
                    }
                    _ => vec![cropped.clone(), Call { w: 16, h: 16, cols: 2, blocks: vec![a, u, u, a], is_u: vec![false, true, true, false] }],
                };
                let (ea, eu) = (alone(a), alone(u));
                let calls2 = calls.clone();
                let outs: Vec<Result<Vec<u8>, String>> = std::thread::spawn(move || {
                    crate::evidence::install_panic_hook();
                    calls2
                        .iter()
                        .map(|c| {
                            let mut plane = vec![100u8; c.w * c.h];
                            let mut blocks = c.blocks.clone();
                            catch(|| idct_channel(&mut blocks, &mut plane, c.cols, c.w)).map(|_| plane)
                        })
                        .collect()
                })
                .join()
                .unwrap_or_default();
                n += calls.len() as u64;
                let names = ["row-only", "column-only", "DC-only", "two-dimensional"];
                for (ci, (c, o)) in calls.iter().zip(outs.iter()).enumerate() {
                    let plane = match o {
                        Ok(p) => p,
                        Err(p) => {
                            rep.violation(&panic_sig(p), format!("fresh-content history ({} block, {v} visible, scenario {scenario}), call {ci}: {p}", names[shape]), json!({"kind": "idct-history", "shape": shape, "visible": v, "scenario": scenario}));
                            break;
                        }
                    };
                    let mut bad = None;
                    'scan: for y in 0..c.h {
                        for x in 0..c.w {
                            let k = (y / 8) * c.cols + x / 8;
                            let want = if c.is_u[k] { &eu } else { &ea };
                            if plane[y * c.w + x] != want[(y % 8) * 8 + x % 8] {
                                bad = Some((x, y, plane[y * c.w + x], want[(y % 8) * 8 + x % 8]));
                                break 'scan;
                            }
                        }
                    }
                    if let Some((x, y, got, want)) = bad {
                        rep.violation_lazy(&format!("C10/result-depends-on-earlier-blocks-of-the-thread[{}]", names[shape]), || {
                            (
                                format!("a {} block first met with {v} visible lines, scenario {scenario}: call {ci} ({}x{} plane, {} block columns): sample ({x},{y}) is {got}, the block transformed alone on a new thread gives {want}", names[shape], c.w, c.h, c.cols),
                                json!({"kind": "idct-history", "shape": shape, "visible": v, "scenario": scenario, "coefficients": vecu.to_vec()}),
                            )
                        });
                        break;
                    }
                }
            }
        }
    }
    rep.add_transitions(n);
    rep.add_states(n);
    rep.extra("fresh_content_history_calls", json!(n));
}

pub fn run(tier: Tier) -> Report {
    let rep = Report::new("C10", "idct", tier);
    // zero in -> zero out
    match run_block(&DecodedDctBlock::Full([[0.0; 8]; 8])) {
        Ok(t) if t.iter().flatten().all(|v| *v == 0) => {}
        Ok(_) => rep.violation("C10/zero-block", "an all-zero block does not transform to all zeros".into(), json!({"kind": "idct", "coefficients": "all zero"})),
        Err(p) => rep.violation(&panic_sig(&p), p, json!({"kind": "idct"})),
    }
    match run_block(&DecodedDctBlock::Zero) {
        Ok(t) if t.iter().flatten().all(|v| *v == 0) => {}
        _ => rep.violation("C10/zero-block", "DecodedDctBlock::Zero does not leave the plane unchanged".into(), json!({"kind": "idct"})),
    }
    rep.add_transitions(4);
    rep.add_states(2);
    // Annex A procedure
    let seeds: Vec<i32> = if tier.thorough() { vec![1, 2, 3, 5, 7, 11, 1234567, 42, 99991] } else { vec![1, 7] };
    for &s in &seeds {
        for (l, h) in [(256, 255), (5, 5), (300, 300)] {
            for neg in [false, true] {
                annex_a_range(&rep, s, l, h, neg, 10_000);
            }
        }
    }
    // shortcuts
    let info = std::sync::atomic::AtomicU64::new(0);
    let dcs: Vec<i32> = (-2048..=2047).collect();
    dcs.par_iter().for_each(|&v| {
        let mut c = [[0i32; 8]; 8];
        c[0][0] = v;
        check_shape(&rep, "Dc", &DecodedDctBlock::Dc(v as f32), &c, &info);
        check_shape(&rep, "Full (dc only)", &full(&c), &c, &info);
    });
    rep.add_transitions(4 * 4096);
    rep.add_states(4096);
    let bset: [i32; 15] = [1, -1, 2, -2, 3, -3, 255, -255, 256, -256, 1023, -1023, 2047, -2047, -2048];
    let mut vectors: Vec<[i32; 8]> = vec![];
    for i in 0..8 {
        for v in -2048..=2047 {
            if v != 0 {
                let mut a = [0; 8];
                a[i] = v;
                vectors.push(a);
            }
        }
    }
    for i in 0..8 {
        for j in i + 1..8 {
            for &a in &bset {
                for &b in &bset {
                    let mut v = [0; 8];
                    v[i] = a;
                    v[j] = b;
                    vectors.push(v);
                }
            }
        }
    }
    // dense first rows/columns from the Annex A generator (full coefficient range)
    let mut g = Ieee(77);
    for _ in 0..if tier.thorough() { 20000 } else { 4000 } {
        vectors.push(std::array::from_fn(|_| g.next(2048, 2047)));
        vectors.push(std::array::from_fn(|_| g.next(64, 64)));
    }
    vectors.par_iter().for_each(|v| {
        let mut ch = [[0i32; 8]; 8];
        let mut cv = [[0i32; 8]; 8];
        for k in 0..8 {
            ch[0][k] = v[k];
            cv[k][0] = v[k];
        }
        let f: [f32; 8] = std::array::from_fn(|k| v[k] as f32);
        check_shape(&rep, "Horiz", &DecodedDctBlock::Horiz(f), &ch, &info);
        check_shape(&rep, "Vert", &DecodedDctBlock::Vert(f), &cv, &info);
        check_shape(&rep, "Full (first row)", &full(&ch), &ch, &info);
        check_shape(&rep, "Full (first column)", &full(&cv), &cv, &info);
    });
    rep.add_transitions(8 * vectors.len() as u64);
    rep.add_states(2 * vectors.len() as u64);
    rep.add_nontrivial(2 * vectors.len() as u64 + 4096);
    // ---- general (two-dimensional) blocks with few, large coefficients: intermediate values of the
    // separable transform far beyond the 12-bit coefficient range while some output samples stay
    // unsaturated. All pairs of positions x the boundary value set; two coefficients in one row plus
    // a third elsewhere; sparse blocks with full-range values from the Annex A generator.
    {
        let mut blocks: Vec<[[i32; 8]; 8]> = vec![];
        let pair_vals: &[i32] = if tier.thorough() { &bset } else { &[1, -3, 255, -256, 1023, 2047, -2047, -2048] };
        for p1 in 0..64usize {
            for p2 in p1 + 1..64 {
                for &a in pair_vals {
                    for &b in pair_vals {
                        let mut c = [[0i32; 8]; 8];
                        c[p1 / 8][p1 % 8] = a;
                        c[p2 / 8][p2 % 8] = b;
                        blocks.push(c);
                    }
                }
            }
        }
        let tv = [2047, -2048, 1024, -1500, 700];
        let thirds = [(0usize, 0usize), (0, 3), (2, 0), (3, 3), (7, 7), (5, 1), (1, 6), (4, 4)];
        for r in 0..8usize {
            for i in 0..8usize {
                for j in i + 1..8 {
                    for &(ty, tx) in &thirds {
                        if ty == r && (tx == i || tx == j) {
                            continue;
                        }
                        for &a in &tv {
                            for &b in &tv {
                                for &t in &tv {
                                    let mut c = [[0i32; 8]; 8];
                                    c[r][i] = a;
                                    c[r][j] = b;
                                    c[ty][tx] = t;
                                    blocks.push(c);
                                    // and the transpose: two coefficients in one column
                                    let mut d = [[0i32; 8]; 8];
                                    d[i][r] = a;
                                    d[j][r] = b;
                                    d[tx][ty] = t;
                                    blocks.push(d);
                                }
                            }
                        }
                    }
                }
            }
        }
        let mut g = Ieee(4242);
        for k in 0..if tier.thorough() { 200_000 } else { 40_000 } {
            let mut c = [[0i32; 8]; 8];
            let n = 3 + k % 6;
            for _ in 0..n {
                let pos = g.next(0, 63) as usize;
                c[pos / 8][pos % 8] = g.next(2048, 2047);
            }
            // DC in the range an INTRADC can produce keeps part of the block unsaturated
            if k % 2 == 0 {
                c[0][0] = g.next(0, 2040);
            }
            blocks.push(c);
        }
        blocks.par_iter().for_each(|c| check_shape(&rep, "Full (sparse, large)", &full(c), c, &info));
        rep.add_transitions(2 * blocks.len() as u64);
        rep.add_states(blocks.len() as u64);
        rep.add_nontrivial(blocks.len() as u64);
        rep.extra("sparse_large_full_blocks", json!(blocks.len()));
    }
    // ---- planes of several blocks: a block's result must not depend on its neighbours in the plane
    {
        let v1: [f32; 8] = [800.0, -93.0, 41.0, 0.0, -7.0, 0.0, 3.0, 0.0];
        let v2: [f32; 8] = [800.0, 93.0, 0.0, 0.0, 0.0, 0.0, 0.0, -12.0];
        let mut f1 = [[0f32; 8]; 8];
        let mut f2 = [[0f32; 8]; 8];
        for (i, v) in [640.0f32, -51.0, 33.0, 17.0, -9.0, 5.0].iter().enumerate() {
            f1[i % 3][(i * 2) % 5] = *v;
            f2[(i * 3) % 7][i % 4] = -*v;
        }
        f1[0][0] = 800.0;
        let letters: Vec<(&str, DecodedDctBlock)> = vec![
            ("Zero", DecodedDctBlock::Zero),
            ("Dc(800)", DecodedDctBlock::Dc(800.0)),
            ("Dc(-96)", DecodedDctBlock::Dc(-96.0)),
            ("Horiz(v1)", DecodedDctBlock::Horiz(v1)),
            ("Horiz(v2)", DecodedDctBlock::Horiz(v2)),
            ("Vert(v1)", DecodedDctBlock::Vert(v1)),
            ("Vert(v2)", DecodedDctBlock::Vert(v2)),
            ("Full(f1)", DecodedDctBlock::Full(f1)),
            ("Full(f2)", DecodedDctBlock::Full(f2)),
        ];
        // reference: each letter alone over prediction 100
        let alone: Vec<Vec<u8>> = letters
            .iter()
            .map(|(_, b)| {
                let mut out = vec![100u8; 64];
                let mut blk = [*b];
                let _ = catch(|| idct_channel(&mut blk, &mut out, 1, 8));
                out
            })
            .collect();
        let n = letters.len();
        let len = if tier.thorough() { 5 } else { 4 };
        let total = n.pow(len as u32);
        let seqs: Vec<usize> = (0..total).collect();
        seqs.par_iter().for_each(|&code| {
            let mut idx = vec![];
            let mut c = code;
            for _ in 0..len {
                idx.push(c % n);
                c /= n;
            }
            // two layouts: one row of `len` blocks, and a 2-column arrangement (raster order differs)
            for cols in [len, 2] {
                let rows = (len + cols - 1) / cols;
                let mut blocks: Vec<DecodedDctBlock> = idx.iter().map(|i| letters[*i].1).collect();
                blocks.resize(rows * cols, DecodedDctBlock::Zero);
                let mut plane = vec![100u8; rows * cols * 64];
                if let Err(p) = catch(|| idct_channel(&mut blocks, &mut plane, cols, cols * 8)) {
                    rep.violation(&panic_sig(&p), format!("plane of blocks {:?}: {p}", idx.iter().map(|i| letters[*i].0).collect::<Vec<_>>()), json!({"kind": "idct-plane", "blocks": idx}));
                    continue;
                }
                for (k, &li) in idx.iter().enumerate() {
                    let (bx, by) = (k % cols, k / cols);
                    let same = (0..64).all(|t| plane[(by * 8 + t / 8) * cols * 8 + bx * 8 + t % 8] == alone[li][t]);
                    if !same {
                        rep.violation_lazy(&format!("C10/block-result-depends-on-neighbours-{}", letters[li].0.split('(').next().unwrap()), || {
                            (
                                format!("block {k} ({}) of the plane [{}] ({cols} columns) differs from the same block transformed alone", letters[li].0, idx.iter().map(|i| letters[*i].0).collect::<Vec<_>>().join(", ")),
                                json!({"kind": "idct-plane", "blocks": idx.iter().map(|i| letters[*i].0).collect::<Vec<_>>(), "columns": cols}),
                            )
                        });
                        break;
                    }
                }
            }
        });
        rep.add_transitions(2 * total as u64);
        rep.add_states(total as u64);
        rep.extra("block_sequences_in_one_plane", json!(total));
        // prediction content: the residual must be *added* to whatever the plane holds. Every
        // assignment of {0, 255, 100} to the eight rows (and to the eight columns) of the prediction
        // under each block letter, and sparse patterns with isolated zeros / extremes.
        {
            let resid: Vec<Option<[[i32; 8]; 8]>> = letters.iter().map(|(_, b)| run_block(b).ok()).collect();
            let vals = [0u8, 255, 100];
            let pats: Vec<usize> = (0..3usize.pow(8)).collect();
            let n_pred = std::sync::atomic::AtomicU64::new(0);
            pats.par_iter().for_each(|&code| {
                for by_rows in [true, false] {
                    let mut pred = [0u8; 64];
                    for k in 0..64 {
                        let line = if by_rows { k / 8 } else { k % 8 };
                        pred[k] = vals[code / 3usize.pow(line as u32) % 3];
                    }
                    for variant in 0..2 {
                        if variant == 1 {
                            // the same with single samples flipped to the other extreme
                            for k in (code % 7..64).step_by(11) {
                                pred[k] = if pred[k] == 0 { 255 } else { 0 };
                            }
                        }
                        for (li, (name, b)) in letters.iter().enumerate() {
                            let Some(r) = resid[li] else { continue };
                            let mut plane = pred.to_vec();
                            let mut blk = [*b];
                            n_pred.fetch_add(1, std::sync::atomic::Ordering::Relaxed);
                            if let Err(p) = catch(|| idct_channel(&mut blk, &mut plane, 1, 8)) {
                                rep.violation(&panic_sig(&p), format!("{name} over a structured prediction: {p}"), json!({"kind": "idct-prediction", "letter": name, "prediction": pred.to_vec()}));
                                continue;
                            }
                            for k in 0..64 {
                                let rr = r[k / 8][k % 8];
                                let want = (pred[k] as i32 + rr).clamp(0, 255);
                                // a residual observed as -255 may be -256: indistinguishable unless pred = 255
                                let ok = plane[k] as i32 == want || (rr == -255 && pred[k] == 255 && plane[k] == 0);
                                if !ok {
                                    rep.violation_lazy(&format!("C10/residual-not-added-to-prediction-{}", name.split('(').next().unwrap()), || {
                                        (format!("{name}: sample {k} over prediction {} is {}, prediction + residual ({rr}) = {want}; prediction rows/columns code {code}, by rows = {by_rows}", pred[k], plane[k]), json!({"kind": "idct-prediction", "letter": name, "prediction": pred.to_vec()}))
                                    });
                                    break;
                                }
                            }
                        }
                    }
                }
            });
            let n = n_pred.load(std::sync::atomic::Ordering::Relaxed);
            rep.add_transitions(n);
            rep.add_states(n);
            rep.extra("structured_predictions", json!(n));
        }
        // planes whose width / height are not multiples of eight: the last column and row of blocks
        // are clipped; every sample inside the plane must equal the block transformed alone, and
        // nothing may be written elsewhere (the plane is followed by guard bytes)
        let mut dims: Vec<(usize, usize)> = vec![];
        let small = if tier.thorough() { 40 } else { 26 };
        for w in 1..=small {
            for h in 1..=small {
                dims.push((w, h));
            }
        }
        for w in [63usize, 64, 65, 127, 128, 129, 255, 256, 257, 511, 512, 513, 1023, 1024, 1025, 2047, 2048, 2049, 4095, 4096, 4097, 32767, 32768] {
            for h in [1usize, 7, 8, 9, 17] {
                dims.push((w, h));
                dims.push((h, w));
            }
        }
        dims.par_iter().for_each(|&(w, h)| {
            for rot in 0..6usize {
                // block grid: just covering the plane, or macroblock-aligned as for a luma plane
                // (then the last block column / row may lie entirely outside)
                let (cols, rows) = if rot < 3 { (w.div_ceil(8), h.div_ceil(8)) } else { (2 * w.div_ceil(16), 2 * h.div_ceil(16)) };
                let idx: Vec<usize> = (0..cols * rows).map(|k| (k * 4 + rot * 5 + k / cols) % n).collect();
                let mut blocks: Vec<DecodedDctBlock> = idx.iter().map(|i| letters[*i].1).collect();
                let guard = 64usize;
                let mut plane = vec![100u8; w * h];
                plane.extend(std::iter::repeat(0xEE).take(guard));
                let r = catch(|| idct_channel(&mut blocks, &mut plane[..w * h], cols, w));
                if let Err(p) = r {
                    rep.violation(&panic_sig(&p), format!("{w}x{h} plane ({cols}x{rows} blocks): {p}"), json!({"kind": "idct-plane-geometry", "w": w, "h": h, "rotation": rot}));
                    return;
                }
                if plane[w * h..].iter().any(|b| *b != 0xEE) {
                    rep.violation("C10/write-beyond-plane", format!("{w}x{h} plane: bytes behind the plane were modified"), json!({"kind": "idct-plane-geometry", "w": w, "h": h, "rotation": rot}));
                }
                let mut bad = None;
                'scan: for y in 0..h {
                    for x in 0..w {
                        let k = (y / 8) * cols + x / 8;
                        if plane[y * w + x] != alone[idx[k]][(y % 8) * 8 + x % 8] {
                            bad = Some((x, y, k));
                            break 'scan;
                        }
                    }
                }
                if let Some((x, y, k)) = bad {
                    rep.violation_lazy("C10/clipped-plane-sample", || {
                        (
                            format!("{w}x{h} plane ({cols}x{rows} blocks, letters rotated by {rot}): sample ({x},{y}) of block {k} ({}) is {}, the block transformed alone gives {}", letters[idx[k]].0, plane[y * w + x], alone[idx[k]][(y % 8) * 8 + x % 8]),
                            json!({"kind": "idct-plane-geometry", "w": w, "h": h, "rotation": rot}),
                        )
                    });
                }
            }
        });
        rep.add_transitions(6 * dims.len() as u64);
        rep.add_states(dims.len() as u64);
        rep.extra("clipped_plane_geometries", json!(dims.len()));
    }
    fresh_content_histories(&rep);
    rep.extra("off_by_one_outside_rounding_band_informational", json!(info.load(std::sync::atomic::Ordering::Relaxed)));
    rep.set_rule(&format!(
        "Annex A procedure verbatim for generator seeds {:?}: 10000 blocks for each of (-256..255), (-5..5), (-300..300) and their negations, forward DCT in f64, rounded, clipped, through idct_channel (hook) as Full blocks, against the f64 inverse; all 4096 Dc blocks; Horiz/Vert: all single-entry vectors over -2048..2047, all two-entry vectors over a 15-value boundary set, dense vectors from the same generator; general blocks with two or three large coefficients (all position pairs x boundary values, row/column pairs plus a third) and sparse full-range blocks; all sequences of 4 (thorough 5) blocks over a 9-letter block alphabet in one plane, in two layouts, each block compared with the same block transformed alone; every assignment of 0, 255 or 100 to the rows and to the columns of the prediction under each letter (the residual is added to whatever the plane holds); planes of every size 1..26 (thorough 40) squared and around every power of two to 32768 whose last block column / row is clipped, every sample compared with the block transformed alone; call histories on new threads in which a block with coefficients the thread has never seen is first met with 0..7 visible lines and then whole (later call, or later in the same plane), for the four block shapes; each block is transformed over prediction 0 and 255 to observe residuals -255..255 (-256 is observable only as <= -255); non-trivial = sparse-shape blocks",
        seeds
    ));
    rep.sample(json!({"annex_a": "seed 1, range -256..255, block 0: 64 generated samples -> fdct -> Full block"}));
    rep.sample(json!({"shortcut": "Horiz [0, 0, 2047, 0, 0, -2048, 0, 0] vs Full first row vs f64"}));
    rep.assume("IEEE 1180 generator with 32-bit wrapping arithmetic; thresholds are the Annex A ones (peak 1, pmse 0.06, omse 0.02, pme 0.015, ome 0.0015)");
    rep
}
