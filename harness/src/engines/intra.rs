//! C02: intra pictures reconstruct exactly (bounded-exhaustive sweeps against the reference decoder).

use super::common::*;
use crate::evidence::{Report, Tier};
use crate::refdec::CmpStats;
use crate::refhdr::{SHdr, SSize, StdHdr};
use crate::syntax::*;
use crate::util::*;
use h263_rs::H263State;
use rayon::prelude::*;
use serde_json::json;
use std::sync::atomic::{AtomicU64, Ordering};

pub fn hdr_kinds(w: u16, h: u16, q: u8, inter: bool, tr: u8) -> Vec<Hdr> {
    let mut v = vec![];
    for version in [0u8, 1] {
        v.push(Hdr::S(SHdr { version, tr, size: SSize::auto(w, h), ptype: inter as u8, deblock: false, q, pei: vec![] }));
    }
    // CPFMT: PWI and PHI are nine-bit fields (width up to 2048, height up to 2044)
    if w % 4 == 0 && h % 4 == 0 && w >= 4 && h >= 4 && w <= 2048 && h <= 2044 {
        v.push(Hdr::Std(StdHdr::custom(w, h, inter, tr, q)));
    }
    for (code, dims) in [(1u8, (128u16, 96u16)), (2, (176, 144)), (3, (352, 288))] {
        if (w, h) == dims {
            v.push(Hdr::Std(StdHdr::baseline(code, inter, tr, q)));
        }
    }
    v
}

fn dc_code(i: usize, b: usize) -> u8 {
    let v = 1 + ((i * 6 + b) * 37 + 11) % 254;
    if v == 128 {
        129
    } else {
        v as u8
    }
}

/// Position-coded intra picture: all six DCs of all macroblocks distinct-ish, one AC event per MB.
pub fn coded_intra(hdr: Hdr) -> Pic {
    let (w, h) = hdr.dims().unwrap();
    let (mbw, mbh) = mb_grid(w, h);
    let v1 = hdr.v1();
    let mut mbs = vec![];
    for i in 0..mbw * mbh {
        let mut blocks: [Blk; 6] = std::array::from_fn(|b| Blk::dc(dc_code(i, b)));
        let run = (i * 5 % 62) as u8;
        let level = (1 + (i % 3) as i16) * if i % 2 == 0 { 1 } else { -1 };
        blocks[i % 6].ev.push(ev_auto(true, run, level, v1));
        mbs.push(Mb::Coded { kind: Kind::Intra, dquant: 0, mvd: vec![], blocks });
    }
    Pic { hdr, mbs }
}

fn run_pics(rep: &Report, label: &str, pics: &[Pic], stats: &(AtomicU64, AtomicU64)) {
    pics.par_iter().for_each(|p| {
        let mut d = Dec::for_hdr(&p.hdr);
        let mut st = CmpStats::default();
        if let Err(f) = d.step(p, "C02", &mut st) {
            rep.violation(&f.sig, format!("[{label}] {}", f.what), d.replay(label));
        }
        stats.0.fetch_add(st.samples, Ordering::Relaxed);
        stats.1.fetch_add(st.ties, Ordering::Relaxed);
    });
    rep.add_transitions(pics.len() as u64);
    rep.add_states(pics.len() as u64);
    rep.extra_add(&format!("pictures_{label}"), pics.len() as u64);
}

fn one_mb_pic(hdr: Hdr, mbs: Vec<Mb>) -> Pic {
    Pic { hdr, mbs }
}
fn sor(w: u16, h: u16, version: u8, q: u8) -> Hdr {
    Hdr::S(SHdr { version, tr: 3, size: SSize::auto(w, h), ptype: 0, deblock: false, q, pei: vec![] })
}

/// zig-zag positions lying in the first row / first column of the block
fn row0_positions() -> Vec<usize> {
    crate::tables::zigzag().iter().enumerate().filter(|(_, (_, y))| *y == 0).map(|(i, _)| i).collect()
}
fn col0_positions() -> Vec<usize> {
    crate::tables::zigzag().iter().enumerate().filter(|(_, (x, _))| *x == 0).map(|(i, _)| i).collect()
}

/// events at the given absolute zig-zag positions (ascending), intra blocks start at index 1
fn events_at(positions: &[usize], start: usize, level: i16, v1: bool) -> Vec<Ev> {
    let mut idx = start;
    let mut out = vec![];
    let n = positions.len();
    for (k, &p) in positions.iter().enumerate() {
        assert!(p >= idx);
        let lv = if k % 2 == 0 { level } else { -level - 1 };
        out.push(ev_auto(k + 1 == n, (p - idx) as u8, lv, v1));
        idx = p + 1;
    }
    out
}

pub fn run(tier: Tier) -> Report {
    let rep = Report::new("C02", "intra", tier);
    let stats = (AtomicU64::new(0), AtomicU64::new(0));
    let maxdim: u16 = if tier.thorough() { 128 } else { 40 };

    // ---- S-size
    let mut pics = vec![];
    let mut sizes: Vec<(u16, u16)> = vec![];
    for w in 1..=maxdim {
        for h in 1..=maxdim {
            sizes.push((w, h));
        }
    }
    // sizes crossing 8-bit and 16-bit boundaries of widths, heights and macroblock counts
    sizes.extend([(176, 144), (128, 96), (65, 33), (33, 65), (255, 1), (1, 255), (256, 16), (16, 256), (320, 8), (352, 288), (2048, 16), (16, 2064), (257, 17)]);
    // medium sizes: every residue mod 16 just above 256 (quick) and above 512 / 1024 (thorough)
    for r in 0..16u16 {
        sizes.push((256 + r, 9));
        sizes.push((9, 256 + r));
    }
    if tier.thorough() {
        sizes.extend([(640, 16), (704, 576), (4096, 8), (8, 4112), (1024, 1024)]);
        for base in [512u16, 1024] {
            for r in 0..16u16 {
                sizes.push((base + r, 17));
                sizes.push((17, base + r));
            }
        }
    }
    // macroblock *counts* on both sides of 2^12 and 2^16 reached with two large dimensions at once
    // (a count is a product: per-axis extremes such as 65535 x 1 stay far below it)
    sizes.extend([(1024, 1008), (1024, 1024), (1040, 1024), (4080, 4112), (4096, 4096), (65521, 241)]);
    if tier.thorough() {
        sizes.extend([(4112, 4096), (65535, 257), (8192, 2048), (2048, 8208)]);
    }
    // all pairs of the boundary lattice of dimensions under the pixel cap
    sizes.extend(size_lattice(if tier.thorough() { 1 << 20 } else { 1 << 16 }));
    for &(w, h) in &sizes {
        for hdr in hdr_kinds(w, h, 5, false, 1) {
            pics.push(coded_intra(hdr));
        }
    }
    // Sorenson fixed size codes
    for code in 2..=6u8 {
        if code == 2 && !tier.thorough() {
            continue;
        }
        pics.push(coded_intra(Hdr::S(SHdr { version: 0, tr: 9, size: SSize::Code(code), ptype: 0, deblock: true, q: 7, pei: vec![] })));
    }
    let nontrivial_sizes = pics.iter().filter(|p| p.hdr.dims().map(|(w, h)| w % 16 != 0 || h % 16 != 0).unwrap_or(false)).count() as u64;
    run_pics(&rep, "size", &pics, &stats);
    rep.add_nontrivial(nontrivial_sizes);

    // ---- S-cbp: all 64 coded-block patterns x sparsity shapes x 2 sizes x {Intra, IntraQ}
    let row0 = row0_positions();
    let col0 = col0_positions();
    let mut pics = vec![];
    for &(w, h) in &[(16u16, 16u16), (17, 17), (9, 5)] {
        for version in [0u8, 1] {
            for cbp in 0..64u32 {
                for shape in 0..5usize {
                    for kind in [Kind::Intra, Kind::IntraQ] {
                        let hdr = sor(w, h, version, 6);
                        let (mbw, mbh) = mb_grid(w, h);
                        let mut mbs = vec![];
                        for i in 0..mbw * mbh {
                            let blocks: [Blk; 6] = std::array::from_fn(|b| {
                                let mut blk = Blk::dc(dc_code(i + 3, b));
                                if cbp >> (5 - b) & 1 == 1 {
                                    let sh = if shape == 4 { (b + i) % 4 } else { shape };
                                    blk.ev = match sh {
                                        0 => events_at(&row0[1..4], 1, 3, version == 1),
                                        1 => events_at(&col0[1..5], 1, 2, version == 1),
                                        2 => events_at(&[1, 2, 4, 7, 12, 40, 63], 1, 2, version == 1),
                                        _ => events_at(&[row0[2]], 1, 40, version == 1),
                                    };
                                }
                                blk
                            });
                            mbs.push(Mb::Coded { kind, dquant: if i % 2 == 0 { 1 } else { -2 }, mvd: vec![], blocks });
                        }
                        pics.push(one_mb_pic(hdr, mbs));
                    }
                }
            }
        }
    }
    run_pics(&rep, "cbp-shape", &pics, &stats);
    rep.add_nontrivial(pics.len() as u64);

    // ---- S-event: every short code, every escape run x boundary level x form x q
    let mut pics = vec![];
    let all_q: Vec<u8> = (1..=31).collect();
    let qs: &[u8] = if tier.thorough() { &all_q } else { &[1, 2, 15, 31] };
    let mut push_event = |ev: Ev, last: bool, q: u8, hdrs: &[Hdr]| {
        for hdr in hdrs {
            let mut blocks: [Blk; 6] = std::array::from_fn(|b| Blk::dc(dc_code(1, b)));
            let mut evs = vec![ev.clone()];
            if !last {
                // a following last event keeps the first one at last = 0
                let pos = 1 + ev.run as usize + 1;
                if pos > 63 {
                    continue;
                }
                evs.push(ev_auto(true, 0, 1, hdr.v1()));
            }
            blocks[2].ev = evs.clone();
            blocks[5].ev = evs;
            let mut hdr = hdr.clone();
            match &mut hdr {
                Hdr::S(h) => h.q = q,
                Hdr::Std(h) => h.pquant = q,
            }
            pics.push(Pic { hdr, mbs: vec![Mb::Coded { kind: Kind::Intra, dquant: 0, mvd: vec![], blocks }] });
        }
    };
    let v0 = [sor(16, 16, 0, 1), Hdr::Std(StdHdr::custom(16, 16, false, 2, 1))];
    let v1 = [sor(16, 16, 1, 1)];
    for k in 0..102usize {
        let last = k >= 58;
        let (run, level) = (crate::tables::TCOEF_RUN[k], crate::tables::TCOEF_LEVEL[k] as i16);
        if 1 + run as usize > 63 {
            continue;
        }
        for sign in [1i16, -1] {
            for &q in qs {
                push_event(Ev { run, level: level * sign, form: Form::Short }, last, q, &v0);
                push_event(Ev { run, level: level * sign, form: Form::Short }, last, q, &v1);
            }
        }
    }
    let runs: Vec<u8> = if tier.thorough() { (0..=62).collect() } else { vec![0, 1, 2, 7, 8, 26, 27, 40, 41, 61, 62] };
    for &run in &runs {
        for last in [false, true] {
            for &q in qs {
                for lv in [1i16, 2, 12, 13, 63, 64, 127] {
                    for s in [1i16, -1] {
                        push_event(Ev { run, level: lv * s, form: Form::Esc8 }, last, q, &v0);
                    }
                }
                for lv in [1i16, 2, 32, 63] {
                    for s in [1i16, -1] {
                        push_event(Ev { run, level: lv * s, form: Form::Esc7 }, last, q, &v1);
                    }
                }
                for lv in [1i16, 63, 64, 127, 128, 512, 1023] {
                    for s in [1i16, -1] {
                        push_event(Ev { run, level: lv * s, form: Form::Esc11 }, last, q, &v1);
                    }
                }
            }
        }
    }
    {
        // every level of every escape form x every quantizer (mid-range values, not only boundaries):
        // thorough on four runs and both LAST values, quick on run 3 with LAST = 1
        let all_q: Vec<u8> = (1..=31).collect();
        let runs: &[u8] = if tier.thorough() { &[0, 1, 26, 62] } else { &[3] };
        let lasts: &[bool] = if tier.thorough() { &[false, true] } else { &[true] };
        for &run in runs {
            for &q in &all_q {
                for &last in lasts {
                    for lv in (-127..=127i16).filter(|l| *l != 0) {
                        push_event(Ev { run, level: lv, form: Form::Esc8 }, last, q, &v0);
                    }
                    // the Sorenson fields are plain two's-complement numbers without a reserved code (FFmpeg's flv
                    // reader takes them with get_sbits): the most negative value of each field is a level too
                    for lv in (-64..=63i16).filter(|l| *l != 0) {
                        push_event(Ev { run, level: lv, form: Form::Esc7 }, last, q, &v1);
                    }
                    for lv in (-1024..=1023i16).filter(|l| *l != 0) {
                        push_event(Ev { run, level: lv, form: Form::Esc11 }, last, q, &v1);
                    }
                }
            }
        }
    }
    run_pics(&rep, "event", &pics, &stats);
    rep.add_nontrivial(pics.len() as u64);

    // ---- the same extreme / saturating levels with the quantizer reached through DQUANT instead of
    // PQUANT: in the macroblock that carries the update, in a later plain macroblock, after a chain
    // up from 1 or down from 31, and after an excursion that returns to the picture quantizer
    let mut pics = vec![];
    {
        let steps_to = |from: i32, to: i32| -> Vec<i8> {
            let mut v = vec![];
            let mut cur = from;
            while cur != to {
                let d = (to - cur).clamp(-2, 2);
                v.push(d as i8);
                cur += d;
            }
            v
        };
        let mut push_path = |pq: i32, dqs: &[i8], ev: &Ev, hdr0: &Hdr, tail_plain: bool| {
            if !(1..=31).contains(&pq) || dqs.is_empty() {
                return;
            }
            let with_ev = |i: usize| -> [Blk; 6] {
                let mut blocks: [Blk; 6] = std::array::from_fn(|b| Blk::dc(dc_code(i + 1, b)));
                blocks[2].ev = vec![ev.clone()];
                blocks[5].ev = vec![ev.clone()];
                blocks
            };
            let mut mbs = vec![];
            for (i, &d) in dqs.iter().enumerate() {
                let last = i + 1 == dqs.len();
                let blocks = if last && !tail_plain { with_ev(i) } else { std::array::from_fn(|b| Blk::dc(dc_code(i + 1, b))) };
                mbs.push(Mb::Coded { kind: Kind::IntraQ, dquant: d, mvd: vec![], blocks });
            }
            if tail_plain {
                mbs.push(Mb::Coded { kind: Kind::Intra, dquant: 0, mvd: vec![], blocks: with_ev(dqs.len()) });
            }
            let w = (16 * mbs.len()) as u16;
            let mut hdr = hdr0.clone();
            match &mut hdr {
                Hdr::S(h) => {
                    h.q = pq as u8;
                    h.size = SSize::auto(w, 16);
                }
                Hdr::Std(h) => *h = StdHdr::custom(w, 16, false, h.tr, pq as u8),
            }
            pics.push(Pic { hdr, mbs });
        };
        for q in 1..=31i32 {
            // levels around the saturation point of this quantizer, the extremes of each form, +-1
            let sat = ((2048 / q - 1) / 2).max(1) as i16;
            let mut levels: Vec<i16> = vec![1, 127, 1023, sat - 1, sat, sat + 1, sat + 2];
            if tier.thorough() {
                levels = (1..=1023).collect();
            }
            for &lv in &levels {
                for s in [1i16, -1] {
                    let l = lv * s;
                    let mut evs: Vec<(Ev, &Hdr)> = vec![];
                    if (1..=127).contains(&lv) {
                        evs.push((Ev { run: 3, level: l, form: Form::Esc8 }, &v0[0]));
                        evs.push((Ev { run: 3, level: l, form: Form::Esc8 }, &v0[1]));
                    }
                    if (1..=63).contains(&lv) {
                        evs.push((Ev { run: 3, level: l, form: Form::Esc7 }, &v1[0]));
                    }
                    if (1..=1023).contains(&lv) {
                        evs.push((Ev { run: 3, level: l, form: Form::Esc11 }, &v1[0]));
                    }
                    for (ev, hdr) in evs {
                        for tail_plain in [false, true] {
                            push_path(q - 2, &[2], &ev, hdr, tail_plain);
                            push_path(q + 2, &[-2], &ev, hdr, tail_plain);
                            push_path(q - 1, &[1], &ev, hdr, tail_plain);
                            push_path(q + 1, &[-1], &ev, hdr, tail_plain);
                            push_path(1, &steps_to(1, q), &ev, hdr, tail_plain);
                            push_path(31, &steps_to(31, q), &ev, hdr, tail_plain);
                            push_path(q, &[if q <= 29 { 2 } else { -2 }, if q <= 29 { -2 } else { 2 }], &ev, hdr, tail_plain);
                            // an excursion far away and back: up to 31 (or down to 1) and back to q
                            let far = if q <= 16 { 31 } else { 1 };
                            let mut there = steps_to(q, far);
                            there.extend(steps_to(far, q));
                            push_path(q, &there, &ev, hdr, tail_plain);
                        }
                    }
                }
            }
        }
    }
    run_pics(&rep, "event-after-dquant", &pics, &stats);
    rep.add_nontrivial(pics.len() as u64);

    // ---- two-event chains (running zig-zag index)
    let mut pics = vec![];
    let step = if tier.thorough() { 1 } else { 3 };
    for r1 in (0..=61usize).step_by(step) {
        for r2 in (0..=61usize).step_by(step) {
            if 1 + r1 + 1 + r2 > 63 {
                continue;
            }
            let mut blocks: [Blk; 6] = std::array::from_fn(|b| Blk::dc(dc_code(2, b)));
            blocks[0].ev = vec![ev_auto(false, r1 as u8, 2, false), ev_auto(true, r2 as u8, -3, false)];
            blocks[4].ev = blocks[0].ev.clone();
            pics.push(Pic { hdr: sor(16, 16, 0, 4), mbs: vec![Mb::Coded { kind: Kind::Intra, dquant: 0, mvd: vec![], blocks }] });
        }
    }
    // every number of AC events 1..63 in one intra block (all of run 0), short and escape-coded last event
    for n in 1..=63usize {
        for version in [0u8, 1] {
            for esc_last in [false, true] {
                let v1 = version == 1;
                let mut evs: Vec<Ev> = (0..n - 1).map(|k| ev_auto(false, 0, if k % 3 == 0 { 2 } else { -1 }, v1)).collect();
                evs.push(if esc_last { Ev { run: 0, level: -29, form: esc_form(v1, -29) } } else { ev_auto(true, 0, 1, v1) });
                let mut blocks: [Blk; 6] = std::array::from_fn(|b| Blk::dc(dc_code(3, b)));
                blocks[3].ev = evs.clone();
                blocks[4].ev = evs;
                pics.push(Pic { hdr: sor(16, 16, version, 4), mbs: vec![Mb::Coded { kind: Kind::Intra, dquant: 0, mvd: vec![], blocks }] });
            }
        }
    }
    run_pics(&rep, "chain", &pics, &stats);

    // ---- block-type sequences: repeated identical sparse blocks interleaved with dense ones
    let mut pics = vec![];
    {
        let nb = if tier.thorough() { 8 } else { 6 };
        for version in [0u8, 1] {
            for code in 0..4usize.pow(nb as u32) {
                // luma blocks in raster order of a 32x16 picture: MB0.b0 MB0.b1 MB1.b0 MB1.b1 MB0.b2 MB0.b3 MB1.b2 MB1.b3
                let raster = [(0usize, 0usize), (0, 1), (1, 0), (1, 1), (0, 2), (0, 3), (1, 2), (1, 3)];
                let mut mbs: Vec<[Blk; 6]> = (0..2).map(|_| std::array::from_fn(|_| Blk::dc(100))).collect();
                let mut c = code;
                for (k, &(mb, b)) in raster.iter().enumerate() {
                    let ty = if k < nb { c % 4 } else { [3usize, 1][k - nb] };
                    c /= 4;
                    mbs[mb][b].ev = match ty {
                        0 => vec![],
                        1 => events_at(&row0[1..4], 1, 3, version == 1),
                        2 => events_at(&col0[1..4], 1, 3, version == 1),
                        _ => events_at(&[1, 2, 4, 7, 12], 1, 2, version == 1),
                    };
                }
                // chroma: a column-only and a row-only block with the same vector in Cb, dense then sparse in Cr
                mbs[0][4].ev = events_at(&col0[1..4], 1, 3, version == 1);
                mbs[1][4].ev = events_at(&row0[1..4], 1, 3, version == 1);
                mbs[0][5].ev = events_at(&[1, 2, 4, 7, 12], 1, 2, version == 1);
                mbs[1][5].ev = events_at(&row0[1..4], 1, 3, version == 1);
                pics.push(Pic { hdr: sor(32, 16, version, 6), mbs: mbs.into_iter().map(|blocks| Mb::Coded { kind: Kind::Intra, dquant: 0, mvd: vec![], blocks }).collect() });
            }
        }
    }
    run_pics(&rep, "block-type-sequences", &pics, &stats);
    rep.add_nontrivial(pics.len() as u64);

    // ---- S-dc: every INTRADC code in every block position
    let mut pics = vec![];
    for dc in 1..=255u8 {
        if dc == 128 {
            continue;
        }
        for b in 0..6usize {
            let blocks: [Blk; 6] = std::array::from_fn(|k| Blk::dc(if k == b { dc } else { 64 }));
            pics.push(Pic { hdr: sor(16, 16, (dc % 2) as u8, 9), mbs: vec![Mb::Coded { kind: Kind::Intra, dquant: 0, mvd: vec![], blocks }] });
        }
    }
    run_pics(&rep, "intradc", &pics, &stats);

    // ---- S-quant: DQUANT sequences from every PQUANT
    let mut pics = vec![];
    let dqs = [0i8, -2, -1, 1, 2];
    for q in 1..=31u8 {
        for a in dqs {
            for b in dqs {
                for c in dqs {
                    let mbs: Vec<Mb> = [a, b, c]
                        .iter()
                        .enumerate()
                        .map(|(i, &dq)| {
                            let mut blocks: [Blk; 6] = std::array::from_fn(|k| Blk::dc(dc_code(i, k)));
                            blocks[i % 4].ev = vec![ev_auto(true, 0, 10, false)];
                            blocks[4].ev = vec![ev_auto(true, 1, -10, false)];
                            Mb::Coded { kind: if dq == 0 { Kind::Intra } else { Kind::IntraQ }, dquant: dq, mvd: vec![], blocks }
                        })
                        .collect();
                    pics.push(Pic { hdr: sor(48, 16, 0, q), mbs });
                }
            }
        }
    }
    run_pics(&rep, "dquant", &pics, &stats);
    rep.add_nontrivial(pics.len() as u64);

    // ---- S-stuff: stuffing before each macroblock position, PEI bytes
    let mut pics = vec![];
    for combo in 0..256usize {
        for version in [0u8, 1] {
            let mut mbs = vec![];
            for i in 0..4 {
                for _ in 0..(combo >> (2 * i)) & 3 {
                    mbs.push(Mb::Stuffing);
                }
                let mut blocks: [Blk; 6] = std::array::from_fn(|k| Blk::dc(dc_code(i, k)));
                blocks[i].ev = vec![ev_auto(true, 3, 2, version == 1)];
                mbs.push(Mb::Coded { kind: Kind::Intra, dquant: 0, mvd: vec![], blocks });
            }
            let pei = (0..combo % 4).map(|k| (combo * 7 + k * 31) as u8).collect();
            pics.push(Pic { hdr: Hdr::S(SHdr { version, tr: combo as u8, size: SSize::auto(32, 32), ptype: 0, deblock: combo % 2 == 1, q: 11, pei }), mbs });
        }
    }
    // the same in standard mode
    for combo in 0..64usize {
        let mut mbs = vec![];
        for i in 0..4 {
            for _ in 0..(combo >> (2 * (i % 3))) & 3 {
                mbs.push(Mb::Stuffing);
            }
            mbs.push(Mb::Coded { kind: Kind::Intra, dquant: 0, mvd: vec![], blocks: std::array::from_fn(|k| Blk::dc(dc_code(i, k))) });
        }
        let mut h = StdHdr::custom(32, 32, false, combo as u8, 8);
        h.pei = (0..combo % 3).map(|k| (combo * 5 + k) as u8).collect();
        pics.push(Pic { hdr: Hdr::Std(h), mbs });
    }
    run_pics(&rep, "stuffing", &pics, &stats);

    // ---- size histories: every ordered triple of sizes that collide in one derived quantity and
    // differ in another (equal area / other shape, equal luma count / other chroma count, equal
    // chroma planes, equal macroblock grid), decoded as three intra pictures by one decoder; every
    // picture is compared with the reference
    {
        let mut n = 0u64;
        // (Sorenson streams only: in standard mode the parser answers every change of the source format
        // with UnimplementedDecoding - the resampling gate it documents as unimplemented)
        for (std, version) in [(false, 0u8), (false, 1)] {
            let sizes = super::crash::colliding_sizes(std);
            let pairs: Vec<(usize, usize)> = (0..sizes.len()).flat_map(|a| (0..sizes.len()).map(move |b| (a, b))).collect();
            let hdr_for = |(w, h): (u16, u16), tr: u8| -> Hdr {
                if std {
                    Hdr::Std(StdHdr::custom(w, h, false, tr, 6))
                } else {
                    sor(w, h, version, 6)
                }
            };
            pairs.par_iter().for_each(|&(a, b)| {
                for c in 0..sizes.len() {
                    let mut d = Dec::for_hdr(&hdr_for(sizes[a], 0));
                    let mut st = CmpStats::default();
                    for (k, &sz) in [sizes[a], sizes[b], sizes[c]].iter().enumerate() {
                        let p = coded_intra(hdr_for(sz, k as u8));
                        if let Err(f) = d.step(&p, "C02", &mut st) {
                            rep.violation(&format!("{}[size-history]", f.sig), format!("[size history {:?} -> {:?} -> {:?}, picture {k}] {}", sizes[a], sizes[b], sizes[c], f.what), d.replay("size-history"));
                            break;
                        }
                    }
                    stats.0.fetch_add(st.samples, Ordering::Relaxed);
                    stats.1.fetch_add(st.ties, Ordering::Relaxed);
                }
            });
            n += (pairs.len() * sizes.len()) as u64;
        }
        rep.add_transitions(3 * n);
        rep.add_states(n);
        rep.extra_add("size_histories_of_three_intra_pictures", n);
    }

    // delivery in two pieces: a valid intra picture whose bytes arrive in two parts through one
    // reader - the first call runs dry, is repeated after the rest has been appended and must give
    // the picture of one-piece delivery; every break position (inside the start code, the size
    // fields, INTRADC, an escape, the padding) of pictures in the three stream kinds
    {
        let mut pics: Vec<(u8, Pic)> = vec![];
        for &(w, h) in &[(16u16, 16u16), (20, 12), (32, 16), (33, 17), (256, 8), (300, 20)] {
            for v in 0..2u8 {
                pics.push((1, coded_intra(sor(w, h, v, 7))));
            }
            if w % 4 == 0 && h % 4 == 0 {
                pics.push((0, coded_intra(Hdr::Std(StdHdr::custom(w, h, false, 5, 9)))));
            }
        }
        pics.push((0, coded_intra(Hdr::Std(StdHdr::baseline(1, false, 2, 6)))));
        let n_two = AtomicU64::new(0);
        pics.par_iter().for_each(|(opts, p)| {
            let bytes = encode_bytes(p);
            let mut st = H263State::new(options_from_bits(*opts));
            if !decode_bytes(&mut st, &bytes).is_ok() {
                rep.violation("C02/machinery-two-piece-base-picture", format!("{} does not decode in one piece", describe(p)), json!({"kind": "machinery"}));
                return;
            }
            let expect = [last_snap(&st)];
            for split in 1..bytes.len() {
                n_two.fetch_add(1, Ordering::Relaxed);
                if let Err(e) = deliver_in_two(*opts, &[], &bytes, split, &expect) {
                    rep.violation("C02/delivery-in-two-pieces", format!("{}: {e}", describe(p).chars().take(80).collect::<String>()), json!({"kind": "stream-two-pieces", "options": opts, "concatenated": crate::bits::hex(&bytes), "pictures": 1, "split": split, "error": e}));
                    break;
                }
            }
        });
        let n = n_two.load(Ordering::Relaxed);
        rep.add_transitions(n);
        rep.add_states(n);
        rep.extra("two_piece_deliveries", json!(n));
    }

    rep.extra("samples_compared", json!(stats.0.load(Ordering::Relaxed)));
    rep.extra("samples_accepted_inside_rounding_band", json!(stats.1.load(Ordering::Relaxed)));
    rep.set_rule(&format!(
        "intra pictures enumerated as syntax trees, encoded by an independent bit writer, decoded by H263State and by a naive f64 reference decoder: every size 1..={maxdim}^2 (+ large/odd extras) x {{Sorenson v0, v1, H.263 custom/baseline}} with position-coded content; all 64 CBP x 5 sparsity shapes x {{INTRA, INTRA+Q}} x 3 sizes x 2 versions; every short TCOEF code x sign, escape run x boundary levels x 3 forms x quantizers {:?}; two-event chains; all assignments of DC-only / row-only / column-only / dense to the luma blocks of a 32x16 picture in raster order with identical sparse vectors; every INTRADC x 6 positions; all DQUANT triples x 31 PQUANT; stuffing/PEI combinations; every ordered triple of 17 colliding sizes decoded as three Sorenson intra pictures by one decoder; \
         non-trivial = picture whose size is not a multiple of 16, or that carries AC events / DQUANT",
        qs
    ));
    rep.sample(json!({"sweep": "size", "picture": describe(&coded_intra(sor(17, 3, 0, 5)))}));
    rep.sample(json!({"sweep": "event", "picture": "Sorenson v1 16x16 q=31, block 2 and 5 = [11-bit escape run 7 level -1023 last]"}));
    rep.sample(json!({"sweep": "dquant", "picture": "48x16 PQUANT 30, DQUANT (+2,+2,-1), level 10 per macroblock"}));
    rep.assume("reference decoder: f64 ideal IDCT, a sample may differ by one only if |frac(ideal) - 0.5| <= 1e-5 + 1e-6*sum|coef|");
    rep.assume("VLC tables transcribed independently (encoder direction); agreement with the parser is itself exercised by every picture");
    rep
}
