//! C09 (Annex J at every edge: all 2^32 patterns x 12 strengths through the vector and the scalar
//! kernel in both passes + geometry sweep) and C16 (every size/strength accepted; Table J.2).

use crate::bits::{hex, Lcg};
use crate::evidence::{catch, panic_sig, Report, Tier};
use crate::refpost::{annex_j, deblock_model, TABLE_J2};
use h263_rs_deblock::deblock::{deblock, QUANT_TO_STRENGTH};
use rayon::prelude::*;
use serde_json::json;

fn replay_json(w: usize, s: u8, data: &[u8]) -> serde_json::Value {
    json!({"kind": "deblock", "width": w, "strength": s, "data": hex(data)})
}

const FILL: u8 = 0x5A;

/// Kernel sweep for one (A,B) pair: all 65536 (C,D) in one isolating image.
/// `horizontal`: patterns lie vertically across horizontal edges (rows), one per column.
/// `per`: patterns per edge line = image extent across (8 => all in vector lanes, 7 => all scalar).
fn kernel_unit(rep: &Report, a: u8, b: u8, strength: u8, horizontal: bool, per: usize) -> u64 {
    // 8 sub-images of 8192 patterns each keep the buffers below the allocator's mmap threshold
    let mut n = 0;
    let (parts, size) = if per == 1 { (64usize, 1024usize) } else { (8, 8192) };
    for part in 0..parts {
        n += kernel_part(rep, a, b, strength, horizontal, per, part * size, size);
    }
    n
}

fn kernel_part(rep: &Report, a: u8, b: u8, strength: u8, horizontal: bool, per: usize, first: usize, count: usize) -> u64 {
    // per = 8: eight patterns per edge line (all vector lanes); per = 7: seven (all scalar);
    // per = 1: "solo" - the image is 8 across, one pattern per edge line in lane (edge mod 8), the
    // other seven lanes are flat (inactive), so a group-level decision in the vector kernel is
    // driven by the one pattern alone
    let solo = per == 1;
    let across = if solo { 8 } else { per };
    let edges = (count + per - 1) / per;
    let along = 8 * edges + 2; // extent in the direction crossing the edges
    let (w, h) = if horizontal { (across, along) } else { (along, across) };
    let mut img = vec![FILL; w * h];
    let mut expect = vec![FILL; w * h];
    let pat = |k: usize| -> [u8; 4] {
        let k = if k >= count { k - count } else { k };
        let k = (first + k) & 0xFFFF;
        [a, b, (k >> 8) as u8, k as u8]
    };
    let lane_of = |e: usize, c: usize| if solo { e % 8 } else { c };
    for e in 0..edges {
        let base = 8 * (e + 1) - 2;
        for c in 0..per {
            let p = pat(e * per + c);
            let m = annex_j(p[0], p[1], p[2], p[3], strength);
            let lane = lane_of(e, c);
            let (i0, step) = if horizontal { (base * w + lane, w) } else { (lane * w + base, 1) };
            for i in 0..4 {
                img[i0 + i * step] = p[i];
                expect[i0 + i * step] = m[i];
            }
        }
    }
    let desc = json!({"kind":"deblock-kernel","a":a,"b":b,"strength":strength,"horizontal":horizontal,"per":per,"first":first});
    let out = match catch(|| deblock(&img, w, strength)) {
        Ok(o) => o,
        Err(p) => {
            rep.violation(&panic_sig(&p), format!("kernel image {w}x{h} strength {strength}: {p}"), desc);
            return 0;
        }
    };
    if out.len() != img.len() {
        rep.violation("C09/length", format!("output length {} for input {}", out.len(), img.len()), desc);
        return 0;
    }
    let lane_kind = if solo { "vector-solo" } else if per == 8 { "vector" } else { "scalar" };
    let orient = if horizontal { "horizontal-edge" } else { "vertical-edge" };
    if out != expect {
        // locate the first difference and describe it as a pattern
        let i = (0..out.len()).find(|&i| out[i] != expect[i]).unwrap();
        let (r, c) = (i / w, i % w);
        let (acr, alo) = if horizontal { (c, r) } else { (r, c) };
        let e = (alo + 2) / 8;
        let in_pattern = e >= 1 && e <= edges && alo >= 8 * e - 2 && alo <= 8 * e + 1 && (!solo || acr == (e - 1) % 8);
        if in_pattern {
            let p = if solo { pat(e - 1) } else { pat((e - 1) * per + acr) };
            let base = 8 * e - 2;
            let got: Vec<u8> = (0..4).map(|k| if horizontal { out[(base + k) * w + acr] } else { out[acr * w + base + k] }).collect();
            // a tiny standalone image reproducing the pattern in the same kind of slot
            let small = small_image(p, horizontal, across, acr);
            rep.violation(
                &format!("C09/kernel-{lane_kind}-{orient}"),
                format!("pattern (A,B,C,D)={:?} strength {strength} in a {lane_kind} slot of the {orient} pass -> {:?}, Annex J gives {:?}", p, got, annex_j(p[0], p[1], p[2], p[3], strength)),
                replay_json(small.1, strength, &small.0),
            );
        } else {
            rep.violation(&format!("C09/untouched-{orient}"), format!("filler sample at ({c},{r}) changed from {FILL} to {}", out[i]), desc);
        }
    }
    count as u64
}

/// Smallest isolating image with pattern `p` at across-position `pos`.
fn small_image(p: [u8; 4], horizontal: bool, per: usize, pos: usize) -> (Vec<u8>, usize) {
    let (w, h) = if horizontal { (per, 10) } else { (10, per) };
    let mut img = vec![FILL; w * h];
    for i in 0..4 {
        let idx = if horizontal { (6 + i) * w + pos } else { pos * w + 6 + i };
        img[idx] = p[i];
    }
    (img, w)
}

fn geometry_content(kind: usize, w: usize, h: usize, seed: u64) -> Vec<u8> {
    let mut rng = Lcg::new(seed ^ (w as u64 * 1315423911) ^ (h as u64 * 2654435761) ^ kind as u64);
    let mut v = vec![0u8; w * h];
    for y in 0..h {
        for x in 0..w {
            v[y * w + x] = match kind {
                0 => rng.below(256) as u8,
                1 => {
                    // steep block checker: alternating 8x8 blocks with small offsets
                    let base = if ((x / 8) + (y / 8)) % 2 == 0 { 60 } else { 90 };
                    (base + (x % 3) + (y % 2)) as u8
                }
                2 => ((x * 5 + y * 3) % 256) as u8,
                3 => (255 - ((x * 7 + y * 11) % 256)) as u8,
                4 => {
                    if (x + y) % 2 == 0 { 0 } else { 255 }
                }
                _ => (128 + (((x / 8) % 2) as i32 * 2 - 1) * 6 + (((y / 8) % 2) as i32 * 2 - 1) * 3) as u8,
            };
        }
    }
    v
}
/// Localised detail: a flat image except for one span of columns (rows) - every span [a, b] of a
/// 40-sample line - so that the part of an edge the filter has anything to do on starts and ends
/// at every position relative to the 8-sample groups (inside one group, across groups, touching
/// the borders). Three kinds of detail (gentle step, noise, extremes), three strengths.
fn localized_sweep(rep: &Report, prop: &str, seed: u64) -> u64 {
    // (neither dimension is a multiple of eight: the columns / rows behind the last whole group of
    // eight - the part a vector kernel leaves to its scalar tail - are spans of their own, so detail
    // confined to the tail next to a flat, mirror-symmetric vector part is among the images)
    let n = 43usize;
    let spans: Vec<(usize, usize)> = (0..n).flat_map(|a| (a..n).map(move |b| (a, b))).collect();
    spans.par_iter().for_each(|&(a, b)| {
        let mut rng = Lcg::new(seed ^ (a as u64 * 4099 + b as u64));
        for kind in 0..3usize {
            for transposed in [false, true] {
                let (w, h) = if transposed { (21usize, n) } else { (n, 21usize) };
                let mut img = vec![96u8; w * h];
                for y in 0..h {
                    for x in 0..w {
                        let along = if transposed { y } else { x };
                        if along >= a && along <= b {
                            let across = if transposed { x } else { y };
                            img[y * w + x] = match kind {
                                0 => 96 + if across >= 8 { 5 } else { 0 } + (along % 2) as u8,
                                1 => rng.below(256) as u8,
                                _ => if (across + along) % 2 == 0 { 0 } else { 255 },
                            };
                        }
                    }
                }
                for s in [1u8, 6, 12] {
                    check_image(rep, prop, w, h, s, &img, &format!("flat except {} {a}..={b}", if transposed { "rows" } else { "columns" }), true);
                }
            }
        }
    });
    spans.len() as u64 * 18
}

/// A single sample differing from an otherwise flat image, at every position of 19 x 21 and
/// 27 x 10 images, small and large differences: a decision taken for a row, a band or a plane from
/// a scan that misses one position shows here.
fn spike_sweep(rep: &Report, prop: &str) -> u64 {
    let mut n = 0u64;
    for &(w, h) in &[(19usize, 21usize), (27, 10), (10, 27)] {
        let cases: Vec<usize> = (0..w * h).collect();
        cases.par_iter().for_each(|&pos| {
            for (base, odd) in [(96u8, 99u8), (96, 200), (200, 90), (0, 7), (255, 250)] {
                let mut img = vec![base; w * h];
                img[pos] = odd;
                for s in [1u8, 5, 12] {
                    check_image(rep, prop, w, h, s, &img, &format!("flat {base} except sample ({},{}) = {odd}", pos % w, pos / w), true);
                }
            }
        });
        n += (w * h * 15) as u64;
    }
    n
}

/// Structured content at sizes beyond every plausible size threshold (the chroma and luma planes of
/// QCIF and CIF and one size in between): a flat plane in which one 8x8 block is solid with another
/// value - at every block position of the two smaller planes, every fifth of the larger ones - and
/// planes made of solid blocks over three levels (equal neighbours are common, so is a differing
/// block above or below an equal pair). A shortcut that is switched on by size and decides per
/// block from the unfiltered input shows here.
fn large_structured_sweep(rep: &Report, prop: &str, thorough: bool, seed: u64) -> u64 {
    let mut sizes = vec![(88usize, 72usize), (96, 80), (176, 144), (352, 288)];
    if thorough {
        sizes.push((704, 576));
    }
    let mut work: Vec<(usize, usize, usize, u8, u8)> = vec![];
    for &(w, h) in &sizes {
        let nb = (w / 8) * (h / 8);
        let step = if nb <= 200 { 1 } else { 5 };
        for b in (0..nb).step_by(step) {
            for (base, odd) in [(100u8, 120u8), (100, 104), (0, 255)] {
                work.push((w, h, b, base, odd));
            }
        }
    }
    work.par_iter().for_each(|&(w, h, b, base, odd)| {
        let (bx, by) = (b % (w / 8), b / (w / 8));
        let mut img = vec![base; w * h];
        for y in 0..8 {
            for x in 0..8 {
                img[(by * 8 + y) * w + bx * 8 + x] = odd;
            }
        }
        for s in [1u8, 3, 7, 12] {
            check_image(rep, prop, w, h, s, &img, &format!("flat {base} except the solid block ({bx},{by}) = {odd}"), true);
        }
    });
    let mut n = work.len() as u64 * 4;
    let blocky: Vec<(usize, usize, u64)> = sizes.iter().flat_map(|&(w, h)| (0..6u64).map(move |k| (w, h, k))).collect();
    blocky.par_iter().for_each(|&(w, h, k)| {
        let mut rng = Lcg::new(seed ^ (w as u64 * 31 + h as u64 * 17 + k));
        let levels = [[90u8, 100, 112], [0, 128, 255], [100, 101, 103]][(k % 3) as usize];
        let bw = w.div_ceil(8);
        let vals: Vec<u8> = (0..bw * h.div_ceil(8)).map(|_| levels[rng.below(3) as usize]).collect();
        let img: Vec<u8> = (0..w * h).map(|i| vals[(i / w / 8) * bw + (i % w) / 8]).collect();
        for s in [1u8, 4, 9, 12] {
            check_image(rep, prop, w, h, s, &img, &format!("solid blocks over the levels {levels:?}"), true);
        }
    });
    n += blocky.len() as u64 * 4;
    n
}

const GEOM_NAMES: [&str; 6] = ["noise", "block-checker", "ramp-up", "ramp-down", "extremes", "small-steps"];

fn check_image(rep: &Report, prop: &str, w: usize, h: usize, s: u8, data: &[u8], label: &str, compare_model: bool) {
    let before = data.to_vec();
    match catch(|| deblock(data, w, s)) {
        Err(p) => rep.violation(&panic_sig(&p), format!("deblock({w}x{h}, strength {s}, {label}) panicked: {p}"), replay_json(w, s, data)),
        Ok(o) => {
            if o.len() != data.len() {
                rep.violation(&format!("{prop}/length"), format!("{w}x{h} strength {s}: output {} bytes for {} input bytes", o.len(), data.len()), replay_json(w, s, data));
                return;
            }
            if before != data {
                rep.violation(&format!("{prop}/input-modified"), format!("{w}x{h}: input slice modified"), replay_json(w, s, &before));
            }
            if compare_model {
                let m = deblock_model(data, w, s);
                if o != m {
                    let i = (0..o.len()).find(|&i| o[i] != m[i]).unwrap();
                    let (x, y) = (i % w, i / w);
                    let near_h = y % 8 >= 6 || y % 8 <= 1;
                    let near_v = x % 8 >= 6 || x % 8 <= 1;
                    let class = match (near_h && y >= 6, near_v && x >= 6) {
                        (true, true) => "corner",
                        (true, false) => "horizontal-edge",
                        (false, true) => "vertical-edge",
                        _ => "interior",
                    };
                    rep.violation(
                        &format!("{prop}/geometry-{class}"),
                        format!("{w}x{h} strength {s} {label}: sample ({x},{y}) = {} but edge-by-edge Annex J gives {} (input {})", o[i], m[i], data[i]),
                        replay_json(w, s, data),
                    );
                }
            }
        }
    }
}

pub fn run_c09(tier: Tier) -> Report {
    let rep = Report::new("C09", "deblock", tier);
    let seed = crate::evidence::seed();
    // ---- kernel: every (A,B,C,D) x strengths through vector and scalar slots of both passes
    let strengths: Vec<u8> = (1..=12).collect();
    // quick: full 2^32 for every strength in the horizontal pass (vector + scalar), and the vertical pass
    //        on an (A,B) lattice; thorough: everything
    let lattice: Vec<u8> = {
        let mut v: Vec<u8> = vec![0, 1, 2, 3, 7, 8, 15, 16, 31, 32, 63, 64, 100, 127, 128, 129, 150, 191, 192, 200, 223, 224, 239, 240, 247, 248, 251, 252, 253, 254, 255, 77];
        v.sort();
        v.dedup();
        v
    };
    let full_strength = 1 + ((seed + 4) % 12) as u8;
    let mut units: Vec<(u8, u8, u8, bool, usize)> = vec![];
    for &s in &strengths {
        for horizontal in [true, false] {
            for per in [8usize, 7, 1] {
                let full = (tier.thorough() && (per != 1 || horizontal)) || (horizontal && per == 8 && s == full_strength);
                if full {
                    for a in 0..=255u8 {
                        for b in 0..=255u8 {
                            units.push((a, b, s, horizontal, per));
                        }
                    }
                } else {
                    for &a in &lattice {
                        for &b in &lattice {
                            units.push((a, b, s, horizontal, per));
                        }
                    }
                }
            }
        }
    }
    let n: u64 = units.par_iter().map(|&(a, b, s, hz, per)| kernel_unit(&rep, a, b, s, hz, per)).sum();
    rep.add_transitions(n);
    rep.add_states(n);
    rep.extra("kernel_patterns_evaluated", json!(n));
    rep.extra("kernel_units", json!(units.len()));
    // ---- geometry
    let (maxw, maxh) = if tier.thorough() { (96, 96) } else { (40, 40) };
    let mut shapes = vec![];
    for w in 1..=maxw {
        for h in 0..=maxh {
            shapes.push((w, h));
        }
    }
    shapes.extend([(352usize, 288usize), (176, 144), (64, 9), (9, 64), (10, 10), (17, 11)]);
    // large planes (more than 2^18 and 2^20 samples; very wide, very tall)
    let mut big: Vec<(usize, usize)> = vec![(704, 576), (1024, 264), (512, 520), (2056, 24), (24, 2056), (4112, 17)];
    if tier.thorough() {
        big.extend([(1408, 1152), (2048, 1024), (65535, 9), (9, 65535)]);
    }
    big.par_iter().for_each(|&(w, h)| {
        for s in [1u8, 6, 12] {
            for kind in [0usize, 1, 5] {
                let data = geometry_content(kind, w, h, seed);
                check_image(&rep, "C09", w, h, s, &data, GEOM_NAMES[kind], true);
            }
        }
        rep.add_transitions(9);
    });
    rep.add_states(big.len() as u64 * 9);
    shapes.par_iter().for_each(|&(w, h)| {
        for s in 1..=12u8 {
            for kind in 0..6 {
                let data = geometry_content(kind, w, h, seed);
                check_image(&rep, "C09", w, h, s, &data, GEOM_NAMES[kind], true);
            }
        }
        rep.add_transitions(72);
    });
    rep.add_states(shapes.len() as u64 * 72);
    rep.add_nontrivial(shapes.iter().filter(|(w, h)| *w >= 10 || *h >= 10).count() as u64 * 72);
    // self-related content: parts of the image equal what the filter makes of their neighbours
    // (a shortcut that reuses a neighbour's result when "the inputs are equal" can only go wrong
    // when its notion of the neighbour's input is the already-filtered one). For every strength:
    // group / band k+1 := the filtered (one pass or both) or the unfiltered content of group /
    // band k, horizontally and vertically, on gentle noise that the filter actually changes.
    {
        let one_pass = |data: &[u8], w: usize, s: u8, horizontal_edges: bool| -> Vec<u8> {
            let mut img = data.to_vec();
            let h = data.len() / w;
            if horizontal_edges {
                let mut y = 8;
                while y + 1 < h {
                    for x in 0..w {
                        let o = annex_j(img[(y - 2) * w + x], img[(y - 1) * w + x], img[y * w + x], img[(y + 1) * w + x], s);
                        for (k, v) in o.iter().enumerate() {
                            img[(y - 2 + k) * w + x] = *v;
                        }
                    }
                    y += 8;
                }
            } else {
                let mut x = 8;
                while x + 1 < w {
                    for r in 0..h {
                        let o = annex_j(img[r * w + x - 2], img[r * w + x - 1], img[r * w + x], img[r * w + x + 1], s);
                        for (k, v) in o.iter().enumerate() {
                            img[r * w + x - 2 + k] = *v;
                        }
                    }
                    x += 8;
                }
            }
            img
        };
        let sizes: Vec<(usize, usize)> = if tier.thorough() { vec![(16, 16), (24, 17), (33, 24), (64, 33), (40, 40), (17, 64)] } else { vec![(16, 16), (24, 17), (33, 24), (64, 33)] };
        let mut work = vec![];
        for &(w, h) in &sizes {
            for s in 1..=12u8 {
                for variant in 0..3u64 {
                    work.push((w, h, s, variant));
                }
            }
        }
        let n_self = std::sync::atomic::AtomicU64::new(0);
        work.par_iter().for_each(|&(w, h, s, variant)| {
            let mut rng = Lcg::new(seed ^ (w as u64 * 77 + h as u64 * 131 + s as u64 * 7 + variant));
            let amp = 3 * s as u64 + 2;
            let x0: Vec<u8> = (0..w * h).map(|_| (128 + rng.below((2 * amp + 1) as u32) as i64 - amp as i64).clamp(0, 255) as u8).collect();
            let sources: [(&str, Vec<u8>); 4] = [("horizontal-edge pass", one_pass(&x0, w, s, true)), ("vertical-edge pass", one_pass(&x0, w, s, false)), ("both passes", deblock_model(&x0, w, s)), ("unfiltered", x0.clone())];
            for (sname, f) in &sources {
                for (dname, dx, dy) in [("right", 8usize, 0usize), ("below", 0, 8), ("right-and-below", 8, 8)] {
                    for parity in 0..2usize {
                        // groups (8 columns) / bands (8 rows) of the given parity take the content the
                        // source has one group / band to the left / above
                        let mut img = x0.clone();
                        for y in 0..h {
                            for x in 0..w {
                                let (gx, gy) = (x / 8, y / 8);
                                let take = (dx > 0 && gx % 2 == parity && x >= dx) || (dy > 0 && gy % 2 == parity && y >= dy);
                                if take {
                                    let (sx, sy) = (if dx > 0 && gx % 2 == parity && x >= dx { x - dx } else { x }, if dy > 0 && gy % 2 == parity && y >= dy { y - dy } else { y });
                                    img[y * w + x] = f[sy * w + sx];
                                }
                            }
                        }
                        check_image(&rep, "C09", w, h, s, &img, &format!("every second group takes the {sname} result of its neighbour ({dname})"), true);
                        n_self.fetch_add(1, std::sync::atomic::Ordering::Relaxed);
                    }
                }
            }
        });
        let n = n_self.load(std::sync::atomic::Ordering::Relaxed);
        rep.add_transitions(n);
        rep.add_states(n);
        rep.extra("self_related_images", json!(n));
    }
    {
        let nl = localized_sweep(&rep, "C09", seed) + spike_sweep(&rep, "C09") + large_structured_sweep(&rep, "C09", tier.thorough(), seed);
        rep.add_transitions(nl);
        rep.add_states(nl);
        rep.extra("localised_detail_images", json!(nl));
    }
    // placement: the input slice at every byte offset 0..15 of its buffer (the result must not
    // depend on where the slice starts in memory)
    {
        let shapes: [(usize, usize); 6] = [(16, 16), (24, 17), (33, 10), (8, 10), (64, 9), (40, 24)];
        let work: Vec<(usize, usize, u8)> = (0..shapes.len()).flat_map(|s| (0..16usize).flat_map(move |o| [1u8, 6, 12].into_iter().map(move |st| (s, o, st)))).collect();
        work.par_iter().for_each(|&(si, off, st)| {
            let (w, h) = shapes[si];
            let data = geometry_content(0, w, h, seed ^ 0x99);
            let mut buf = vec![0xEEu8; data.len() + 32];
            buf[off..off + data.len()].copy_from_slice(&data);
            check_image(&rep, "C09", w, h, st, &buf[off..off + data.len()], &format!("input slice at byte offset {off} of its buffer"), true);
        });
        rep.add_transitions(work.len() as u64);
        rep.add_states(work.len() as u64);
        rep.extra("slice_placements", json!(work.len()));
    }
    // call histories: the filter is a pure function; all sequences of three calls over an alphabet
    // of (shape, strength, content) on one dedicated thread
    {
        let mut letters: Vec<(usize, usize, u8, Vec<u8>)> = vec![];
        for &(w, h) in &[(16usize, 16usize), (16, 10), (10, 16), (9, 9), (24, 18)] {
            for s in [1u8, 7, 12] {
                for kind in [0usize, 5] {
                    letters.push((w, h, s, geometry_content(kind, w, h, seed)));
                }
            }
        }
        let n = letters.len();
        let rep_ref = &rep;
        let letters_ref = &letters;
        std::thread::scope(|sc| {
            sc.spawn(move || {
                crate::evidence::install_panic_hook();
                for a in 0..n {
                    for b in 0..n {
                        for c in 0..n {
                            for &k in &[a, b, c] {
                                let l = &letters_ref[k];
                                check_image(rep_ref, "C09", l.0, l.1, l.2, &l.3, "call-history", true);
                            }
                        }
                    }
                }
            });
        });
        rep.add_transitions(3 * (n * n * n) as u64);
        rep.add_states((n * n * n) as u64);
        rep.extra("call_history_sequences", json!(n * n * n));
    }
    rep.set_rule(&format!(
        "kernel: (A,B,C,D) patterns x strengths 1..12 placed in images that isolate one pass ({} units of 65536 patterns; quick = all 2^32 for one strength (5 + VERIF_SEED mod 12) in the vector slot of the horizontal pass, 32x32 (A,B) lattice x all (C,D) for every strength, pass and slot kind (packed vector lanes, scalar remainder, alone in an otherwise flat vector group); thorough = all 2^32 x 12 x both passes x vector and scalar slots, and all 2^32 x 12 alone in an otherwise flat vector group of the horizontal pass); \
         geometry: all widths 1..={maxw} x heights 0..={maxh} x 12 strengths x 6 contents {:?}; flat images with detail confined to every span of columns / rows (43 x 21 and 21 x 43, so the scalar tails are spans of their own); flat images with one differing sample at every position; QCIF / CIF-sized planes that are flat except for one solid block (every block position) or made of solid blocks over three levels; the input slice at every byte offset 0..15 of its buffer; images in which every second 8-column group / 8-row band holds what the filter (either pass, both, or none) makes of its neighbour, for every strength; all sequences of three calls over 30 (shape, strength, content) letters on one thread (purity); non-trivial = image with at least one filterable edge",
        units.len(), GEOM_NAMES
    ));
    rep.sample(json!({"kernel": {"A": 10, "B": 10, "C": 9, "D": 10, "strength": 5, "expected": annex_j(10, 10, 9, 10, 5)}}));
    rep.sample(json!({"geometry": {"w": 17, "h": 11, "strength": 7, "content": "noise"}}));
    rep.assume("the deblock crate contains no unsafe code; debug assertions armed; preconditions (len % width == 0, strength 1..=12) respected");
    rep
}

pub fn run_c16(tier: Tier) -> Report {
    let rep = Report::new("C16", "deblock", tier);
    let seed = crate::evidence::seed();
    let (maxw, maxh) = if tier.thorough() { (256, 200) } else { (64, 64) };
    let mut shapes = vec![];
    for w in 1..=maxw {
        for h in 0..=maxh {
            shapes.push((w, h));
        }
    }
    shapes.extend([(1usize, 1000usize), (1000, 1), (1000, 0), (2048, 2), (9, 300), (300, 9)]);
    // beyond the largest standard picture: Sorenson sizes are 16-bit
    shapes.extend([(2050, 8), (2056, 16), (2049, 9), (4100, 9), (4112, 7), (9, 4100), (65535, 8), (8, 65535), (65535, 1), (1, 65535)]);
    shapes.par_iter().for_each(|&(w, h)| {
        for s in 1..=12u8 {
            for kind in [0usize, 4] {
                let data = geometry_content(kind, w, h, seed);
                check_image(&rep, "C16", w, h, s, &data, GEOM_NAMES[kind], true);
            }
        }
        rep.add_transitions(24);
    });
    rep.add_states(shapes.len() as u64 * 24);
    // dense windows at scale: every height (width) 1..=700 (thorough 1500) at a narrow and at a wide
    // fixed width (height), so that every residue of the varying dimension modulo anything up to
    // half the window occurs on planes of up to 10^6 samples; and sizes in general position (primes)
    let win = if tier.thorough() { 1500 } else { 700 };
    let mut wide: Vec<(usize, usize)> = vec![];
    for v in 1..=win {
        wide.extend([(24, v), (1024, v), (v, 24), (v, 1024)]);
    }
    wide.extend([(1009, 331), (331, 1009), (2003, 151), (151, 2003), (4099, 67), (67, 4099), (10007, 29), (29, 10007), (100003, 9), (9, 100003), (1000003, 2), (3, 1000003), (611, 433), (720, 577), (1920, 1081)]);
    wide.par_iter().for_each(|&(w, h)| {
        for (s, kind) in [(3u8, 0usize), (12, 4)] {
            let data = geometry_content(kind, w, h, seed);
            check_image(&rep, "C16", w, h, s, &data, GEOM_NAMES[kind], true);
        }
        rep.add_transitions(2);
    });
    rep.add_states(wide.len() as u64 * 2);
    rep.extra("dense_window_and_prime_shapes", json!(wide.len()));
    let nl = localized_sweep(&rep, "C16", seed);
    rep.add_transitions(nl);
    rep.add_states(nl);
    rep.extra("localised_detail_images", json!(nl));
    rep.add_nontrivial(shapes.iter().filter(|(w, h)| *w < 10 || *h < 10).count() as u64 * 24);
    // Table J.2
    for q in 1..=31usize {
        rep.add_transitions(1);
        rep.add_states(1);
        if QUANT_TO_STRENGTH[q] != TABLE_J2[q] {
            rep.violation(
                "C16/table-j2",
                format!("QUANT_TO_STRENGTH[{q}] = {} but Table J.2 gives {}", QUANT_TO_STRENGTH[q], TABLE_J2[q]),
                json!({"kind": "table-j2", "quant": q}),
            );
        }
    }
    if QUANT_TO_STRENGTH.len() != 32 {
        rep.violation("C16/table-len", format!("table has {} entries", QUANT_TO_STRENGTH.len()), json!({"kind": "table-j2"}));
    }
    rep.set_rule(&format!(
        "all widths 1..={maxw} x heights 0..={maxh} x strengths 1..=12 x 2 contents (noise, 0/255 extremes) + long thin extras + every height / width 1..700 (thorough 1500) at fixed widths / heights 24 and 1024 + prime sizes up to 10^6 + flat images with detail confined to every span [a, b] of columns / rows: no panic, length preserved, equal to the edge-by-edge model; the 31 table entries against the literal Table J.2; non-trivial = image with fewer than ten rows or columns"
    ));
    rep.sample(json!({"w": 5, "h": 0, "strength": 3, "expect": "empty output, no panic"}));
    rep.sample(json!({"w": 11, "h": 1, "strength": 12, "expect": "unchanged"}));
    rep.sample(json!({"table": "QUANT 12 -> STRENGTH 6"}));
    rep
}

pub fn replay(case: &serde_json::Value) {
    let w = case["width"].as_u64().unwrap() as usize;
    let s = case["strength"].as_u64().unwrap() as u8;
    let data = crate::bits::unhex(case["data"].as_str().unwrap());
    let h = data.len() / w.max(1);
    match catch(|| deblock(&data, w, s)) {
        Err(p) => println!("deblock({w}x{h}, strength {s}) panicked: {p}"),
        Ok(o) => {
            let m = deblock_model(&data, w, s);
            let diffs: Vec<usize> = (0..o.len().min(m.len())).filter(|&i| o[i] != m[i]).collect();
            println!("deblock({w}x{h}, strength {s}): {} byte(s) differ from the Annex J model", diffs.len());
            for i in diffs.iter().take(10) {
                println!("  ({},{}) input {} output {} model {}", i % w, i / w, data[*i], o[*i], m[*i]);
            }
        }
    }
}
