//! C06: picture headers are parsed field for field (header model -> bits -> expected record).

use super::common::*;
use crate::bits::{hex, BitWriter};
use crate::evidence::{catch, panic_sig, Report, Tier};
use crate::refhdr::*;
use crate::syntax::*;
use crate::util::*;
use h263_rs::parser::{decode_picture, H263Reader};
use h263_rs::verif as hv;
use rayon::prelude::*;
use serde_json::json;
use std::sync::Arc;

const SENTINEL: u32 = 0xA5C3_3C5A;

/// Translate the implementation's record into the model's vocabulary.
fn observe(p: &hv::Picture) -> Expect {
    let fmt = p.format.map(|f| match f {
        hv::SourceFormat::SubQcif => Fmt::SubQcif,
        hv::SourceFormat::QuarterCif => Fmt::Qcif,
        hv::SourceFormat::FullCif => Fmt::Cif,
        hv::SourceFormat::FourCif => Fmt::FourCif,
        hv::SourceFormat::SixteenCif => Fmt::SixteenCif,
        hv::SourceFormat::Reserved => Fmt::Reserved,
        hv::SourceFormat::Extended(c) => {
            let (par, epar) = match c.pixel_aspect_ratio {
                hv::PixelAspectRatio::Square => (1, (0, 0)),
                hv::PixelAspectRatio::Par12_11 => (2, (0, 0)),
                hv::PixelAspectRatio::Par10_11 => (3, (0, 0)),
                hv::PixelAspectRatio::Par16_11 => (4, (0, 0)),
                hv::PixelAspectRatio::Par40_33 => (5, (0, 0)),
                // `Reserved` is the right answer for the codes 6..=14 only; reported for a code that has a
                // name it must not compare equal to that name
                hv::PixelAspectRatio::Reserved(r) => (if (6..=14).contains(&r) { r } else { 0x80 | r }, (0, 0)),
                hv::PixelAspectRatio::Extended { par_width, par_height } => (15, (par_width, par_height)),
            };
            Fmt::Custom { par, epar, w: c.picture_width_indication, h: c.picture_height_indication }
        }
    });
    Expect {
        version: p.version,
        tr: p.temporal_reference,
        format: fmt,
        options: p.options.bits(),
        has_plusptype: p.has_plusptype,
        has_opptype: p.has_opptype,
        ptype: match p.picture_type {
            hv::PictureTypeCode::IFrame => PType::I,
            hv::PictureTypeCode::PFrame => PType::P,
            hv::PictureTypeCode::PbFrame => PType::Pb,
            hv::PictureTypeCode::ImprovedPbFrame => PType::ImprovedPb,
            hv::PictureTypeCode::BFrame => PType::B,
            hv::PictureTypeCode::EiFrame => PType::Ei,
            hv::PictureTypeCode::EpFrame => PType::Ep,
            hv::PictureTypeCode::Reserved(r) => PType::Reserved(r),
            hv::PictureTypeCode::DisposablePFrame => PType::Disposable,
        },
        mvrange: p.motion_vector_range.as_ref().map(|m| match m {
            hv::MotionVectorRange::Extended => 1,
            hv::MotionVectorRange::Unlimited => 2,
        }),
        sss: p.slice_submode.as_ref().map(|s| (s.contains(hv::SliceSubmode::RECTANGULAR_SLICES), s.contains(hv::SliceSubmode::ARBITRARY_ORDER))),
        layer: p.scalability_layer.as_ref().map(|l| (l.enhancement, l.reference)),
        rpsmf: p.reference_picture_selection_mode.as_ref().map(|r| {
            (
                r.contains(hv::ReferencePictureSelectionMode::RESERVED),
                r.contains(hv::ReferencePictureSelectionMode::REQUEST_NEGATIVE_ACKNOWLEDGEMENT),
                r.contains(hv::ReferencePictureSelectionMode::REQUEST_ACKNOWLEDGEMENT),
            )
        }),
        trp: p.prediction_reference,
        quantizer: p.quantizer,
        cpm: p.multiplex_bitstream,
        trb: p.pb_reference,
        dbquant: p.pb_quantizer.as_ref().map(|q| match q {
            hv::BPictureQuantizer::Five => 0,
            hv::BPictureQuantizer::Six => 1,
            hv::BPictureQuantizer::Seven => 2,
            hv::BPictureQuantizer::Eight => 3,
        }),
        extra: p.extra.clone(),
    }
}

/// First differing field between two records.
fn diff(a: &Expect, b: &Expect) -> String {
    macro_rules! f {
        ($n:ident) => {
            if a.$n != b.$n {
                return format!("{}: parsed {:?}, encoded {:?}", stringify!($n), a.$n, b.$n);
            }
        };
    }
    f!(version);
    f!(tr);
    f!(format);
    f!(options);
    f!(has_plusptype);
    f!(has_opptype);
    f!(ptype);
    f!(mvrange);
    f!(sss);
    f!(layer);
    f!(rpsmf);
    f!(trp);
    f!(quantizer);
    f!(cpm);
    f!(trb);
    f!(dbquant);
    f!(extra);
    "records differ".into()
}
fn diff_field(a: &Expect, b: &Expect) -> String {
    diff(a, b).split(':').next().unwrap_or("?").to_string()
}

/// flag in `Case::prev`: the previous header carries the CIF source format (otherwise no format)
const PREV_IS_CIF: u32 = 1 << 31;
/// flag in `Case::prev`: the previous header is a plain-PTYPE one (no PLUSPTYPE, no OPPTYPE)
const PREV_IS_PLAIN: u32 = 1 << 30;

fn make_prev(options: u32, format_none: bool) -> hv::Picture {
    hv::Picture {
        version: None,
        temporal_reference: 0,
        format: if format_none { None } else { Some(hv::SourceFormat::FullCif) },
        options: hv::PictureOption::from_bits_truncate(options),
        has_plusptype: true,
        has_opptype: true,
        picture_type: hv::PictureTypeCode::IFrame,
        motion_vector_range: None,
        slice_submode: None,
        scalability_layer: None,
        reference_picture_selection_mode: None,
        prediction_reference: None,
        backchannel_message: None,
        reference_picture_resampling: None,
        quantizer: 5,
        multiplex_bitstream: None,
        pb_reference: None,
        pb_quantizer: None,
        extra: vec![],
    }
}

#[derive(Clone)]
pub enum H {
    S(SHdr),
    Std(StdHdr),
}

#[derive(Clone)]
pub struct Case {
    pub h: H,
    pub scal: bool,
    /// previous header handed to the parser: None, or Some(options) with format = None
    pub prev: Option<u32>,
    pub phase: u32,
    pub stuff: u32,
    pub label: &'static str,
}

type StatePair = (h263_rs::H263State, h263_rs::H263State, bool);
thread_local! {
    static WITH_HISTORY: std::cell::RefCell<[Option<StatePair>; 4]> = const { std::cell::RefCell::new([None, None, None, None]) };
}

fn check_case(rep: &Report, c: &Case) {
    let sorenson = matches!(c.h, H::S(_));
    let mut w = BitWriter::new();
    for _ in 0..c.phase {
        w.put(1, 1);
    }
    w.put(0, c.stuff);
    let start = w.nbits;
    match &c.h {
        H::S(h) => h.put(&mut w),
        H::Std(h) => h.put(&mut w, c.scal, c.prev.unwrap_or(0) & !(PREV_IS_CIF | PREV_IS_PLAIN)),
    }
    let hdr_bits = w.nbits - start;
    w.put(SENTINEL, 32);
    w.put(0, 16);
    let verdict = match &c.h {
        H::S(h) => h.expect(),
        H::Std(h) => h.expect(c.scal, c.prev.map(|o| (o & !(PREV_IS_CIF | PREV_IS_PLAIN), if o & PREV_IS_CIF != 0 { Some(Fmt::Cif) } else { None }))),
    };
    let realign = (8 - c.phase % 8) % 8;
    let replay = json!({"kind": "header", "bits": hex(&w.bytes), "phase": c.phase, "stuffing": c.stuff, "sorenson": sorenson, "scalability": c.scal, "previous_options": c.prev, "header_bits": hdr_bits, "label": c.label});
    let prev = c.prev.map(|o| {
        let mut p = make_prev(o & !(PREV_IS_CIF | PREV_IS_PLAIN), o & PREV_IS_CIF == 0);
        if o & PREV_IS_PLAIN != 0 {
            p.has_plusptype = false;
            p.has_opptype = false;
        }
        p
    });
    let opts = options(sorenson, c.scal);
    let bytes = w.bytes.clone();
    let r = catch(|| {
        let mut rd = H263Reader::from_source(&bytes[..]);
        let _ = rd.read_bits::<u32>(c.phase);
        let res = decode_picture(&mut rd, opts, prev.as_ref());
        let after = rd.read_bits::<u32>(32).ok();
        (res.map(|o| o.map(|p| observe(&p))), after)
    });
    rep.add_transitions(1);
    let (res, after) = match r {
        Err(p) => {
            rep.violation(&panic_sig(&p), format!("[{}] header parse panicked: {p}", c.label), replay);
            return;
        }
        Ok(x) => x,
    };
    // the same header through H263State::parse_picture with no previous header given, on a fresh
    // decoder and on one that has decoded a picture: parsing a header on its own must not depend
    // on what the decoder has seen
    if c.prev.is_none() {
        let via_state = WITH_HISTORY.with(|cell| {
            let mut slot = cell.borrow_mut();
            let key = (sorenson as usize) * 2 + c.scal as usize;
            if slot[key].is_none() {
                let mut fresh = h263_rs::H263State::new(opts);
                let mut used = h263_rs::H263State::new(opts);
                let hdr = if sorenson { Hdr::S(SHdr { version: 0, tr: 1, size: SSize::Custom8(32, 16), ptype: 0, deblock: false, q: 5, pei: vec![] }) } else { Hdr::Std(StdHdr::custom(32, 16, false, 1, 5)) };
                let pic = Pic { hdr: hdr.clone(), mbs: vec![Mb::intra_flat(80), Mb::intra_flat(90)] };
                let mut wr = BitWriter::new();
                match &pic.hdr {
                    Hdr::Std(h) => h.put(&mut wr, c.scal, 0),
                    Hdr::S(h) => h.put(&mut wr),
                }
                for mb in &pic.mbs {
                    put_mb(&mut wr, true, mb);
                }
                let ok = decode_bytes(&mut used, &wr.bytes).is_ok();
                let _ = &mut fresh;
                slot[key] = Some((fresh, used, ok));
            }
            let (fresh, used, ok) = slot[key].as_ref().unwrap();
            let run = |st: &h263_rs::H263State| {
                catch(|| {
                    let mut rd = H263Reader::from_source(&bytes[..]);
                    let _ = rd.read_bits::<u32>(c.phase);
                    st.parse_picture(&mut rd, None).map(|o| o.map(|p| observe(&p))).map_err(|e| format!("{e:?}"))
                })
            };
            (run(fresh), run(used), *ok)
        });
        let direct = res.as_ref().map(|o| o.clone()).map_err(|e| format!("{e:?}"));
        let (f, u, ok) = via_state;
        if ok {
            for (which, got) in [("fresh", f), ("with one decoded picture", u)] {
                match got {
                    Err(p) => rep.violation(&panic_sig(&p), format!("[{}] H263State::parse_picture panicked: {p}", c.label), replay.clone()),
                    Ok(g) => {
                        if g != direct {
                            rep.violation_lazy(&format!("C06/parse-through-state-differs[{}]", if which == "fresh" { "fresh" } else { "after-history" }), || (format!("[{}] H263State::parse_picture(reader, None) on a decoder {which} gives {:?}, parser::decode_picture(reader, options, None) gives {:?}", c.label, g.as_ref().map(|o| o.as_ref().map(|e| e.tr)), direct.as_ref().map(|o| o.as_ref().map(|e| e.tr))), replay.clone()));
                        }
                    }
                }
            }
        }
    }
    let mode = if sorenson { "sorenson" } else if matches!(&c.h, H::Std(h) if h.plus.is_some()) { "plusptype" } else { "ptype" };
    // beyond the stuffing window the header may be missed, but never mis-parsed
    let window_exceeded = c.stuff > realign;
    match (&verdict, &res) {
        (Verdict::Unspecified(_), _) => {}
        (Verdict::Reject(why), Ok(Some(got))) => {
            rep.violation(&format!("C06/{mode}-accepted-invalid[{}]", why.split(' ').next().unwrap()), format!("[{}] header with {why} accepted as {:?}", c.label, got.ptype), replay);
        }
        (Verdict::Reject(_), _) => {}
        (Verdict::Exact(e), Ok(Some(got))) | (Verdict::ExactOrErr(e, _), Ok(Some(got))) => {
            if **e != *got {
                rep.violation(&format!("C06/{mode}-field-{}", diff_field(got, e)), format!("[{}] {}", c.label, diff(got, e)), replay);
            } else if after != Some(SENTINEL) {
                rep.violation(
                    &format!("C06/{mode}-bits-consumed"),
                    format!("[{}] record correct but the reader is not at the end of the {hdr_bits}-bit header: next 32 bits {:08x?}, expected {SENTINEL:08x}", c.label, after),
                    replay,
                );
            }
        }
        (Verdict::Exact(_), other) => {
            if !window_exceeded {
                rep.violation(
                    &format!("C06/{mode}-valid-header-rejected"),
                    format!("[{}] valid header (phase {}, {} stuffing bits) not parsed: {}", c.label, c.phase, c.stuff, match other { Ok(None) => "Ok(None)".to_string(), Err(e) => format!("{e:?}"), _ => String::new() }),
                    replay,
                );
            }
        }
        (Verdict::ExactOrErr(_, _), _) => {}
    }
}

type Setter = Arc<dyn Fn(&mut StdHdr) + Send + Sync>;
struct Field {
    name: &'static str,
    full: Vec<Setter>,
    /// indices into `full` used for pairwise / cross products
    boundary: Vec<usize>,
}
fn field<T: Copy + Send + Sync + 'static>(name: &'static str, dom: Vec<T>, boundary: Vec<usize>, set: fn(&mut StdHdr, T)) -> Field {
    Field { name, full: dom.into_iter().map(|v| Arc::new(move |h: &mut StdHdr| set(h, v)) as Setter).collect(), boundary }
}
fn plus(h: &mut StdHdr) -> &mut Plus {
    h.plus.as_mut().unwrap()
}

/// PLUSPTYPE base header with every optional follower present.
fn rich_base() -> StdHdr {
    let mut h = StdHdr::custom(64, 48, true, 0x5B, 13);
    let p = plus(&mut h);
    p.opp.custom_pcf = true;
    p.opp.modes = 0b1000_0110_00; // UMV, SS, RPS
    p.cpfmt.par = 15;
    p.cpfmt.epar = (7, 9);
    p.cpcfc = 0x9E;
    p.etr = 2;
    p.uui = 2;
    p.sss = 1;
    p.elnum = 5;
    p.rlnum = 3;
    p.rpsmf = 5;
    p.trp = Some(0x2A5);
    p.bci = 2;
    p.cpm = Some(2);
    h.pei = vec![0xC4];
    h
}

fn plus_fields() -> Vec<Field> {
    vec![
        field("TR", (0..=255u8).collect(), vec![0, 1, 128, 255], |h, v| h.tr = v),
        field("PTYPE bits 1-2", (0..4u8).collect(), vec![0, 2, 3], |h, v| h.hi2 = v),
        field("PTYPE flags", (0..8u8).collect(), vec![0, 5, 7], |h, v| {
            h.split = v & 4 != 0;
            h.doc = v & 2 != 0;
            h.freeze = v & 1 != 0;
        }),
        field("UFEP", (0..8u8).collect(), vec![0, 1, 2], |h, v| plus(h).ufep = v),
        field("OPPTYPE source format", (0..8u8).collect(), vec![0, 1, 5, 6, 7], |h, v| plus(h).opp.srcfmt = v),
        field("custom PCF", vec![false, true], vec![0, 1], |h, v| plus(h).opp.custom_pcf = v),
        field("OPPTYPE mode bits", (0..1024u16).collect(), vec![0, 0b1000000000, 0b0000100000 << 3, 0b0001000000 << 1, 1023, 1], |h, v| plus(h).opp.modes = v),
        field("OPPTYPE marker", (0..16u8).collect(), vec![8, 0, 9, 15], |h, v| plus(h).opp.marker = v),
        field("MPPTYPE type", (0..8u8).collect(), vec![0, 1, 2, 5, 7], |h, v| plus(h).mpp_type = v),
        field("MPPTYPE RPR/RRU/RTYPE", (0..8u8).collect(), vec![0, 1, 2, 4, 7], |h, v| {
            plus(h).rpr = v & 4 != 0;
            plus(h).rru = v & 2 != 0;
            plus(h).rtype = v & 1 != 0;
        }),
        field("MPPTYPE marker", (0..8u8).collect(), vec![1, 0, 5, 7], |h, v| plus(h).mpp_marker = v),
        field("CPM/PSBI", vec![None, Some(0u8), Some(1), Some(2), Some(3)], vec![0, 1, 4], |h, v| plus(h).cpm = v),
        field("PAR", (0..16u8).collect(), vec![0, 1, 5, 6, 14, 15], |h, v| plus(h).cpfmt.par = v),
        field("PWI", (0..512u16).collect(), vec![0, 1, 255, 256, 511], |h, v| plus(h).cpfmt.pwi = v),
        field("CPFMT marker", vec![true, false], vec![0, 1], |h, v| plus(h).cpfmt.marker = v),
        field("PHI", (0..512u16).collect(), vec![0, 1, 255, 256, 288, 511], |h, v| plus(h).cpfmt.phi = v),
        field("EPAR width", (0..=255u8).collect(), vec![0, 1, 255], |h, v| plus(h).cpfmt.epar.0 = v),
        field("EPAR height", (0..=255u8).collect(), vec![0, 1, 255], |h, v| plus(h).cpfmt.epar.1 = v),
        field("CPCFC", (0..=255u8).collect(), vec![0, 0x80, 255], |h, v| plus(h).cpcfc = v),
        field("ETR", (0..4u8).collect(), vec![0, 1, 3], |h, v| plus(h).etr = v),
        field("UUI", (0..3u8).collect(), vec![0, 1, 2], |h, v| plus(h).uui = v),
        field("SSS", (0..4u8).collect(), vec![0, 1, 2, 3], |h, v| plus(h).sss = v),
        field("ELNUM", (0..16u8).collect(), vec![0, 15], |h, v| plus(h).elnum = v),
        field("RLNUM", (0..16u8).collect(), vec![0, 15], |h, v| plus(h).rlnum = v),
        field("RPSMF", (0..8u8).collect(), vec![0, 4, 5, 6, 7], |h, v| plus(h).rpsmf = v),
        field("TRPI/TRP", std::iter::once(None).chain((0..1024u16).map(Some)).collect(), vec![0, 1, 513, 1024], |h, v| plus(h).trp = v),
        field("BCI", (0..3u8).collect(), vec![0, 1, 2], |h, v| plus(h).bci = v),
        field("PQUANT", (0..32u8).collect(), vec![0, 1, 31], |h, v| h.pquant = v),
        field("TRB", (0..32u8).collect(), vec![0, 7, 8, 31], |h, v| h.trb = v),
        field("DBQUANT", (0..4u8).collect(), vec![0, 3], |h, v| h.dbquant = v),
        field("PEI count", (0..4usize).collect(), vec![0, 1, 3], |h, v| h.pei = (0..v).map(|k| 0x3C ^ (k as u8 * 0x55)).collect()),
        field("PEI byte", (0..=255u8).collect(), vec![0, 0x80, 255], |h, v| h.pei = vec![v, !v]),
    ]
}

fn baseline_fields() -> Vec<Field> {
    vec![
        field("TR", (0..=255u8).collect(), vec![0, 255], |h, v| h.tr = v),
        field("PTYPE bits 1-2", (0..4u8).collect(), vec![0, 2, 3], |h, v| h.hi2 = v),
        field("PTYPE flags", (0..8u8).collect(), vec![0, 7], |h, v| {
            h.split = v & 4 != 0;
            h.doc = v & 2 != 0;
            h.freeze = v & 1 != 0;
        }),
        field("source format", (0..7u8).collect(), vec![0, 1, 5, 6], |h, v| h.srcfmt = v),
        field("PTYPE low bits", (0..32u8).collect(), vec![0, 16, 1, 31], |h, v| {
            h.inter = v & 16 != 0;
            h.umv = v & 8 != 0;
            h.sac = v & 4 != 0;
            h.ap = v & 2 != 0;
            h.pb = v & 1 != 0;
        }),
        field("PQUANT", (0..32u8).collect(), vec![0, 31], |h, v| h.pquant = v),
        field("CPM/PSBI", vec![None, Some(0u8), Some(1), Some(2), Some(3)], vec![0, 4], |h, v| h.cpm = v),
        field("TRB", (0..8u8).collect(), vec![0, 7], |h, v| h.trb = v),
        field("DBQUANT", (0..4u8).collect(), vec![0, 3], |h, v| h.dbquant = v),
        field("PEI count", (0..4usize).collect(), vec![0, 3], |h, v| h.pei = (0..v).map(|k| 0x99 ^ (k as u8 * 0x21)).collect()),
        field("PEI byte", (0..=255u8).collect(), vec![0, 255], |h, v| h.pei = vec![v]),
    ]
}

fn std_cases(base: &StdHdr, fields: &[Field], scal_opts: &[bool], label: &'static str, pairwise: bool, out: &mut Vec<Case>) {
    for &scal in scal_opts {
        // each field over its whole range
        for f in fields {
            for s in &f.full {
                let mut h = base.clone();
                s(&mut h);
                out.push(Case { h: H::Std(h), scal, prev: None, phase: 0, stuff: 0, label });
            }
            let _ = f.name;
        }
        // all pairs of fields over their boundary sets
        if pairwise {
            for i in 0..fields.len() {
                for j in i + 1..fields.len() {
                    for &a in &fields[i].boundary {
                        for &b in &fields[j].boundary {
                            let mut h = base.clone();
                            (fields[i].full[a])(&mut h);
                            (fields[j].full[b])(&mut h);
                            out.push(Case { h: H::Std(h), scal, prev: None, phase: 0, stuff: 0, label });
                        }
                    }
                }
            }
        }
    }
}

fn sorenson_cases(tier: Tier) -> Vec<Case> {
    let mut v = vec![];
    let base = SHdr { version: 0, tr: 0x42, size: SSize::Custom8(40, 24), ptype: 1, deblock: false, q: 9, pei: vec![] };
    let mut push = |h: SHdr| v.push(Case { h: H::S(h), scal: false, prev: None, phase: 0, stuff: 0, label: "sorenson" });
    for ver in 0..32u8 {
        let mut h = base.clone();
        h.version = ver;
        push(h);
    }
    for tr in 0..=255u8 {
        let mut h = base.clone();
        h.tr = tr;
        push(h);
    }
    for code in 2..8u8 {
        for pt in 0..4u8 {
            let mut h = base.clone();
            h.size = SSize::Code(code);
            h.ptype = pt;
            push(h);
        }
    }
    for w in 0..=255u8 {
        for hh in 0..=255u8 {
            let mut h = base.clone();
            h.size = SSize::Custom8(w, hh);
            h.deblock = (w ^ hh) & 1 == 1;
            push(h);
        }
    }
    let fixed: [u16; 3] = [16, 0x0100, 0xFFFF];
    let step = if tier.thorough() { 1 } else { 1 };
    for x in (0..=65535u32).step_by(step) {
        for &f in &fixed {
            let mut h = base.clone();
            h.size = SSize::Custom16(x as u16, f);
            push(h);
            let mut h = base.clone();
            h.size = SSize::Custom16(f, x as u16);
            push(h);
        }
    }
    for pt in 0..4u8 {
        for db in [false, true] {
            for q in 0..32u8 {
                let mut h = base.clone();
                h.ptype = pt;
                h.deblock = db;
                h.q = q;
                push(h);
            }
        }
    }
    for n in 0..4usize {
        for slot in 0..n.max(1) {
            for b in 0..=255u8 {
                let mut h = base.clone();
                h.pei = (0..n).map(|k| if k == slot { b } else { 0x6D }).collect();
                push(h);
            }
        }
    }
    // long chains of supplemental bytes: any per-header counter passes 255/256, 512, 65535/65536
    for n in [4usize, 15, 16, 17, 127, 128, 254, 255, 256, 257, 300, 511, 512, 513, 1000, 65535, 65536, 65537] {
        if n > 2000 && !tier.thorough() && n != 65536 {
            continue;
        }
        let mut h = base.clone();
        h.pei = (0..n).map(|k| (k as u8).wrapping_mul(37) ^ 0x5A).collect();
        push(h);
    }
    v
}

pub fn run(tier: Tier) -> Report {
    let rep = Report::new("C06", "headers", tier);
    let mut cases: Vec<Case> = sorenson_cases(tier);
    let n_sor = cases.len();
    // H.263: PLUSPTYPE with every follower present, and a lean PLUSPTYPE, each with and without scalability
    let rich = rich_base();
    let lean = StdHdr::custom(32, 16, false, 9, 7);
    let mut ufep0 = StdHdr::custom(32, 16, true, 11, 6);
    plus(&mut ufep0).ufep = 0;
    let pf = plus_fields();
    std_cases(&rich, &pf, &[false, true], "plusptype-rich", true, &mut cases);
    std_cases(&lean, &pf, &[false, true], "plusptype-lean", tier.thorough(), &mut cases);
    std_cases(&ufep0, &pf, &[false, true], "plusptype-ufep0", tier.thorough(), &mut cases);
    if tier.thorough() {
        // all triples of fields over the first two boundary values of each, on the rich header
        for i in 0..pf.len() {
            for j in i + 1..pf.len() {
                for k in j + 1..pf.len() {
                    for m in 0..8usize {
                        let mut h = rich.clone();
                        for (bit, f) in [(0, i), (1, j), (2, k)] {
                            let b = &pf[f].boundary;
                            (pf[f].full[b[(m >> bit & 1).min(b.len() - 1)]])(&mut h);
                        }
                        cases.push(Case { h: H::Std(h), scal: m % 2 == 1, prev: None, phase: 0, stuff: 0, label: "triples" });
                    }
                }
            }
        }
    }
    // all 512 x 512 width/height indications (incl. PHI beyond 288: reports what was encoded)
    for pwi in 0..512u16 {
        for phi in 0..512u16 {
            let mut h = lean.clone();
            plus(&mut h).cpfmt.pwi = pwi;
            plus(&mut h).cpfmt.phi = phi;
            cases.push(Case { h: H::Std(h), scal: false, prev: None, phase: 0, stuff: 0, label: "cpfmt" });
        }
    }
    // EPAR all 256^2
    for a in 0..=255u8 {
        for b in 0..=255u8 {
            let mut h = lean.clone();
            plus(&mut h).cpfmt.par = 15;
            plus(&mut h).cpfmt.epar = (a, b);
            cases.push(Case { h: H::Std(h), scal: false, prev: None, phase: 0, stuff: 0, label: "epar" });
        }
    }
    // ELNUM x RLNUM
    for e in 0..16u8 {
        for r in 0..16u8 {
            for u in [0u8, 1] {
                let mut h = lean.clone();
                plus(&mut h).ufep = u;
                plus(&mut h).elnum = e;
                plus(&mut h).rlnum = r;
                cases.push(Case { h: H::Std(h), scal: true, prev: None, phase: 0, stuff: 0, label: "layers" });
            }
        }
    }
    // long PEI/PSUPP chains in both H.263 header kinds
    for n in [4usize, 15, 16, 17, 127, 128, 254, 255, 256, 257, 300, 511, 512, 513, 1000, 65535, 65536, 65537] {
        if n > 2000 && !tier.thorough() && n != 65536 {
            continue;
        }
        let bytes: Vec<u8> = (0..n).map(|k| (k as u8).wrapping_mul(29) ^ 0xC3).collect();
        let mut h = lean.clone();
        h.pei = bytes.clone();
        cases.push(Case { h: H::Std(h), scal: n % 2 == 0, prev: None, phase: 0, stuff: 0, label: "long-pei" });
        let mut b = StdHdr::baseline(2, true, 0x31, 11);
        b.pei = bytes;
        cases.push(Case { h: H::Std(b), scal: false, prev: None, phase: 0, stuff: 0, label: "long-pei" });
    }
    // baseline PTYPE
    let bf = baseline_fields();
    std_cases(&StdHdr::baseline(2, true, 0x31, 11), &bf, &[false], "ptype", true, &mut cases);
    let mut pbbase = StdHdr::baseline(3, true, 0x77, 4);
    pbbase.pb = true;
    std_cases(&pbbase, &bf, &[false], "ptype-pb", false, &mut cases);
    // TRB x DBQUANT for improved PB frames with and without custom PCF
    for pcf in [false, true] {
        for trb in 0..32u8 {
            for dbq in 0..4u8 {
                let mut h = lean.clone();
                plus(&mut h).mpp_type = 2;
                plus(&mut h).opp.custom_pcf = pcf;
                h.trb = if pcf { trb } else { trb & 7 };
                h.dbquant = dbq;
                cases.push(Case { h: H::Std(h), scal: false, prev: None, phase: 0, stuff: 0, label: "improved-pb" });
            }
        }
    }
    // inheritance: every subset of the ten OPPTYPE options in the previous header, UFEP = 000
    for subset in 0..1024u32 {
        let mut o = 0;
        for (i, bit) in [O_UMV, O_SAC, O_AP, O_AIC, O_DF, O_SS, O_RPS, O_ISD, O_AIV, O_MQ].iter().enumerate() {
            if subset >> i & 1 == 1 {
                o |= bit;
            }
        }
        for extra in [0u32, O_SPLIT | O_RTYPE | O_RPR] {
            let mut h = ufep0.clone();
            plus(&mut h).rtype = subset % 3 == 0;
            plus(&mut h).trp = if subset % 2 == 0 { Some(subset as u16) } else { None };
            cases.push(Case { h: H::Std(h), scal: subset % 5 == 0, prev: Some(o | extra), phase: 0, stuff: 0, label: "inheritance" });
        }
    }
    // inheritance from a *plain-PTYPE* previous header: unrestricted vectors, arithmetic coding and
    // advanced prediction can be switched on by PTYPE bits 10-12 of a header without PLUSPTYPE, and
    // a following UFEP = 000 header inherits them like it inherits from a PLUSPTYPE header
    for subset in 0..8u32 {
        let mut o = PREV_IS_PLAIN;
        for (i, bit) in [O_UMV, O_SAC, O_AP].iter().enumerate() {
            if subset >> i & 1 == 1 {
                o |= bit;
            }
        }
        for extra in [0u32, O_SPLIT | O_DOC] {
            let mut h = ufep0.clone();
            plus(&mut h).rtype = subset % 2 == 0;
            cases.push(Case { h: H::Std(h), scal: false, prev: Some(o | extra), phase: 0, stuff: 0, label: "inheritance-from-plain-header" });
        }
    }
    // a plain-PTYPE header (CIF) after a header of the same format that had OPPTYPE-group options
    // switched on: every single option, all of them, and a few mixtures; PTYPE's own option bits in
    // every combination. Nothing is inherited by a header without PLUSPTYPE: it reports what its
    // own bits say, and no field of the other header kind is read.
    {
        let all10 = [O_UMV, O_SAC, O_AP, O_AIC, O_DF, O_SS, O_RPS, O_ISD, O_AIV, O_MQ];
        let mut prevs: Vec<u32> = all10.to_vec();
        prevs.push(all10.iter().fold(0, |a, b| a | b));
        prevs.extend([0, O_RPS | O_SS, O_UMV | O_AP | O_MQ, O_RPS | O_RTYPE | O_RPR, O_SPLIT | O_DOC | O_FREEZE]);
        for &o in &prevs {
            for bits in 0..16u8 {
                for inter in [false, true] {
                    let mut b = StdHdr::baseline(3, inter, 0x21 ^ bits, 1 + bits * 2);
                    b.umv = bits & 1 != 0;
                    b.sac = bits & 2 != 0;
                    b.ap = bits & 4 != 0;
                    b.split = bits & 8 != 0;
                    b.pei = if bits % 3 == 0 { vec![0x5A] } else { vec![] };
                    cases.push(Case { h: H::Std(b), scal: false, prev: Some(o | PREV_IS_CIF), phase: (bits % 8) as u32, stuff: 0, label: "plain-header-after-options" });
                }
            }
        }
    }
    // full cross of reduced domains (2-3 values per field) on the rich header
    {
        let red: Vec<(usize, Vec<usize>)> = pf.iter().enumerate().filter(|(_, f)| ["UFEP", "custom PCF", "OPPTYPE source format", "MPPTYPE type", "CPM/PSBI", "PAR", "UUI", "BCI", "TRPI/TRP", "PEI count"].contains(&f.name)).map(|(i, f)| (i, f.boundary.iter().take(3).copied().collect())).collect();
        let total: usize = red.iter().map(|r| r.1.len()).product();
        for k in 0..total {
            let mut h = rich.clone();
            let mut kk = k;
            for (fi, vals) in &red {
                (pf[*fi].full[vals[kk % vals.len()]])(&mut h);
                kk /= vals.len();
            }
            cases.push(Case { h: H::Std(h), scal: k % 2 == 0, prev: None, phase: 0, stuff: 0, label: "cross" });
        }
    }
    // bit phases x stuffing lengths (0 ..= realign + 2) for representative headers of each kind
    let reps: Vec<H> = vec![
        H::S(SHdr { version: 1, tr: 200, size: SSize::Custom16(320, 200), ptype: 2, deblock: true, q: 31, pei: vec![1, 2] }),
        H::S(SHdr { version: 0, tr: 0, size: SSize::Code(3), ptype: 0, deblock: false, q: 1, pei: vec![] }),
        H::Std(rich.clone()),
        H::Std(lean.clone()),
        H::Std(StdHdr::baseline(1, false, 3, 2)),
    ];
    for h in &reps {
        for phase in 0..8u32 {
            let realign = (8 - phase) % 8;
            for stuff in 0..=realign + 2 {
                for scal in [false, true] {
                    if scal && matches!(h, H::S(_)) {
                        continue;
                    }
                    cases.push(Case { h: h.clone(), scal, prev: None, phase, stuff, label: "phase-stuffing" });
                }
            }
        }
    }
    let n_total = cases.len();
    cases.par_iter().for_each(|c| check_case(&rep, c));
    rep.add_states(n_total as u64);
    rep.add_nontrivial((n_total - n_sor) as u64);
    rep.extra("sorenson_headers", json!(n_sor));
    rep.extra("h263_headers", json!(n_total - n_sor));

    // decoder level: a decoded picture reports the header it was decoded from
    let mut dec_cases: Vec<SHdr> = vec![];
    for (w, h) in [(16u16, 16u16), (17, 3), (1, 1), (48, 32), (255, 2), (256, 16)] {
        for pt in [0u8, 1, 2] {
            for db in [false, true] {
                for q in [1u8, 17, 31] {
                    dec_cases.push(SHdr { version: (q % 2) as u8, tr: (w as u8).wrapping_mul(3) ^ q, size: SSize::auto(w, h), ptype: pt, deblock: db, q, pei: if db { vec![q] } else { vec![] } });
                }
            }
        }
    }
    for code in 2..=6u8 {
        dec_cases.push(SHdr { version: 0, tr: code, size: SSize::Code(code), ptype: 0, deblock: true, q: 5, pei: vec![] });
    }
    // the boundary lattice of sizes (all pairs under the pixel cap), picture type and flags rotating
    let lattice = size_lattice(if tier.thorough() { 1 << 22 } else { 1 << 18 });
    rep.extra("decoded_header_size_lattice", json!(lattice.len()));
    for (i, &(w, h)) in lattice.iter().enumerate() {
        let q = 1 + (i * 7 % 31) as u8;
        dec_cases.push(SHdr { version: (i % 2) as u8, tr: (i * 37 % 256) as u8, size: SSize::auto(w, h), ptype: (i % 3) as u8, deblock: i % 5 < 2, q, pei: if i % 4 == 0 { vec![q] } else { vec![] } });
    }
    dec_cases.par_iter().for_each(|h| {
        let mut d = Dec::new(1);
        let (w, hh) = h.size.dims().unwrap();
        let (mbw, mbh) = mb_grid(w, hh);
        let mut i0 = h.clone();
        i0.ptype = 0;
        i0.tr = h.tr.wrapping_add(100);
        let ip = Pic { hdr: Hdr::S(i0), mbs: (0..mbw * mbh).map(|_| Mb::intra_flat(99)).collect() };
        let mut st = crate::refdec::CmpStats::default();
        if h.ptype != 0 {
            let _ = d.step(&ip, "C06", &mut st);
        }
        let p = Pic { hdr: Hdr::S(h.clone()), mbs: (0..mbw * mbh).map(|i| if h.ptype == 0 || i % 2 == 0 { Mb::intra_flat(60) } else { Mb::NotCoded }).collect() };
        rep.add_transitions(1);
        match d.step(&p, "C06", &mut st) {
            Err(f) => rep.violation(&f.sig, f.what, d.replay("decoded picture header")),
            Ok(None) => rep.violation("C06/decoder-rejects", format!("{} rejected", describe(&p)), d.replay("decoded picture header")),
            Ok(Some(_)) => {
                let s = last_snap(&d.st).unwrap();
                let want_opts = if h.deblock { O_SORENSON_DEBLOCK } else { 0 };
                let want_type = ["IFrame", "PFrame", "DisposablePFrame"][h.ptype as usize];
                if s.tr != h.tr as u16 || s.q != h.q || s.options != want_opts || s.ptype != want_type || s.version != Some(h.version) || s.dims != Some((w, hh)) {
                    rep.violation(
                        "C06/decoded-picture-header",
                        format!("decoded picture reports tr={} q={} options={:#x} type={} version={:?} size={:?}; its header had tr={} q={} deblock={} type={want_type} version={} size={w}x{hh}", s.tr, s.q, s.options, s.ptype, s.version, s.dims, h.tr, h.q, h.deblock, h.version),
                        d.replay("decoded picture header"),
                    );
                }
            }
        }
    });
    rep.add_states(dec_cases.len() as u64);
    // pairs of consecutive headers: one field varied in the reference picture x one field varied in
    // the following picture (I, P or D), all field pairs over small value sets, same picture size
    // signalled in every form; both pictures decoded, the second must report its own header
    {
        type Setter = Box<dyn Fn(&mut SHdr) + Send + Sync>;
        let mut setters: Vec<(String, Setter)> = vec![];
        for v in [0u8, 1] {
            setters.push((format!("version={v}"), Box::new(move |h: &mut SHdr| h.version = v)));
        }
        for v in [0u8, 1, 128, 255] {
            setters.push((format!("tr={v}"), Box::new(move |h: &mut SHdr| h.tr = v)));
        }
        for (n, f) in [("size code 4", SSize::Code(4)), ("8-bit size", SSize::Custom8(128, 96)), ("16-bit size", SSize::Custom16(128, 96))] {
            setters.push((n.to_string(), Box::new(move |h: &mut SHdr| h.size = f.clone())));
        }
        for v in [false, true] {
            setters.push((format!("deblock={v}"), Box::new(move |h: &mut SHdr| h.deblock = v)));
        }
        for v in [1u8, 16, 31] {
            setters.push((format!("q={v}"), Box::new(move |h: &mut SHdr| h.q = v)));
        }
        for v in [vec![], vec![7u8], vec![1, 2, 3]] {
            setters.push((format!("pei={v:?}"), Box::new(move |h: &mut SHdr| h.pei = v.clone())));
        }
        let n = setters.len();
        let work: Vec<(usize, usize, u8)> = (0..n).flat_map(|a| (0..n).flat_map(move |b| [0u8, 1, 2].into_iter().map(move |pt| (a, b, pt)))).collect();
        work.par_iter().for_each(|&(a, b, pt)| {
            let mut ha = SHdr { version: 0, tr: 9, size: SSize::Code(4), ptype: 0, deblock: false, q: 6, pei: vec![] };
            (setters[a].1)(&mut ha);
            let mut hb = SHdr { version: 0, tr: 10, size: SSize::Code(4), ptype: pt, deblock: false, q: 6, pei: vec![] };
            (setters[b].1)(&mut hb);
            let mut d = Dec::new(1);
            let mut st = crate::refdec::CmpStats::default();
            let pa = super::inter::noise_intra(Hdr::S(ha.clone()), 3);
            let mbs_b: Vec<Mb> = (0..48).map(|i| if pt == 0 || i % 5 == 1 { Mb::intra_flat(60 + i as u8) } else if i % 5 == 3 { Mb::NotCoded } else { Mb::inter(((i % 7) as i8 - 3, (i % 3) as i8 - 1)) }).collect();
            let pb = Pic { hdr: Hdr::S(hb.clone()), mbs: mbs_b };
            rep.add_transitions(2);
            for (k, p) in [&pa, &pb].into_iter().enumerate() {
                match d.step(p, "C06", &mut st) {
                    Err(f) => {
                        rep.violation(&f.sig, format!("header pair [{}] then [{}] (type {pt}), picture {k}: {}", setters[a].0, setters[b].0, f.what), d.replay("header pair"));
                        return;
                    }
                    Ok(None) => {
                        rep.violation("C06/header-pair-rejected", format!("header pair [{}] then [{}] (type {pt}): picture {k} rejected", setters[a].0, setters[b].0), d.replay("header pair"));
                        return;
                    }
                    Ok(Some(_)) => {}
                }
            }
            let s = last_snap(&d.st).unwrap();
            let want_type = ["IFrame", "PFrame", "DisposablePFrame"][pt as usize];
            if s.tr != hb.tr as u16 || s.q != hb.q || s.options != (if hb.deblock { O_SORENSON_DEBLOCK } else { 0 }) || s.ptype != want_type || s.version != Some(hb.version) || s.dims != Some((128, 96)) {
                rep.violation("C06/decoded-picture-header-after-another", format!("header pair [{}] then [{}] (type {pt}): the second picture reports tr={} q={} options={:#x} type={} version={:?} size={:?}", setters[a].0, setters[b].0, s.tr, s.q, s.options, s.ptype, s.version, s.dims), d.replay("header pair"));
            }
        });
        rep.add_states(work.len() as u64);
        rep.extra("header_pairs_decoded", json!(work.len()));
    }
    // standard mode: inert header flags, CPM/PSBI, PEI and both header kinds on decoded pictures
    let mut std_cases: Vec<StdHdr> = vec![];
    for flags in 0..8u8 {
        for cpm in [None, Some(0u8), Some(3)] {
            for inter in [false, true] {
                for q in [1u8, 31] {
                    let mut h = StdHdr::custom(32, 16, inter, 0x80 | flags, q);
                    h.split = flags & 4 != 0;
                    h.doc = flags & 2 != 0;
                    h.freeze = flags & 1 != 0;
                    h.plus.as_mut().unwrap().cpm = cpm;
                    h.plus.as_mut().unwrap().rtype = flags & 1 != 0;
                    h.pei = if flags & 2 != 0 { vec![flags, 0xEE] } else { vec![] };
                    std_cases.push(h);
                    let mut b = StdHdr::baseline(1, inter, 0x40 | flags, q);
                    b.split = flags & 4 != 0;
                    b.doc = flags & 2 != 0;
                    b.freeze = flags & 1 != 0;
                    b.cpm = cpm;
                    std_cases.push(b);
                }
            }
        }
    }
    // the five named source formats, signalled in PTYPE and in OPPTYPE
    for fmt in 1..=5u8 {
        if fmt == 5 && !tier.thorough() {
            continue;
        }
        for inter in [false, true] {
            std_cases.push(StdHdr::baseline(fmt, inter, 0x20 | fmt, 7));
            let mut o = StdHdr::custom(16, 16, inter, 0x30 | fmt, 9);
            o.plus.as_mut().unwrap().opp.srcfmt = fmt;
            std_cases.push(o);
        }
    }
    // custom picture formats over the lattice of multiples of four
    {
        let dims: Vec<u16> = dim_lattice().into_iter().filter(|d| *d < 4096).flat_map(|d| [d & !3, (d & !3) + 4]).filter(|d| (4..=2044).contains(d)).collect::<std::collections::BTreeSet<u16>>().into_iter().collect();
        let cap: u64 = if tier.thorough() { 1 << 22 } else { 1 << 18 };
        let mut i = 0usize;
        for &w in dims.iter().chain([2048u16].iter()) {
            for &hh in &dims {
                if w as u64 * hh as u64 > cap {
                    continue;
                }
                i += 1;
                let mut h = StdHdr::custom(w, hh, i % 2 == 1, (i * 11 % 256) as u8, 1 + (i * 5 % 31) as u8);
                h.plus.as_mut().unwrap().cpfmt.par = 1 + (i % 5) as u8;
                std_cases.push(h);
            }
        }
        rep.extra("decoded_header_cpfmt_lattice", json!(i));
    }
    std_cases.par_iter().for_each(|h| {
        let mut d = Dec::new(0);
        let hdr = Hdr::Std(h.clone());
        let (w, hh) = hdr.dims().unwrap();
        let (mbw, mbh) = mb_grid(w, hh);
        let inter = hdr.pic_type() == PicType::P;
        let mut st = crate::refdec::CmpStats::default();
        if inter {
            let mut i0 = h.clone();
            i0.inter = false;
            if let Some(p) = i0.plus.as_mut() {
                p.mpp_type = 0;
            }
            i0.tr = h.tr.wrapping_add(1);
            let ip = Pic { hdr: Hdr::Std(i0), mbs: (0..mbw * mbh).map(|_| Mb::intra_flat(99)).collect() };
            let _ = d.step(&ip, "C06", &mut st);
        }
        let p = Pic { hdr, mbs: (0..mbw * mbh).map(|i| if !inter || i % 2 == 0 { Mb::intra_flat(60) } else { Mb::NotCoded }).collect() };
        rep.add_transitions(1);
        match d.step(&p, "C06", &mut st) {
            Err(f) => rep.violation(&f.sig, f.what, d.replay("decoded standard-mode picture header")),
            Ok(None) => rep.violation("C06/decoder-rejects-std", format!("{} rejected", describe(&p)), d.replay("decoded standard-mode picture header")),
            Ok(Some(_)) => {
                let s = last_snap(&d.st).unwrap();
                let want = match h.expect(false, None) {
                    Verdict::Exact(e) | Verdict::ExactOrErr(e, _) => e,
                    _ => return,
                };
                let want_type = if inter { "PFrame" } else { "IFrame" };
                if s.tr != want.tr || s.q != want.quantizer || s.options != want.options || s.ptype != want_type || s.version.is_some() || s.dims != Some((w, hh)) {
                    rep.violation(
                        "C06/decoded-picture-header-std",
                        format!("decoded picture reports tr={} q={} options={:#x} type={} size={:?}; its header had tr={} q={} options={:#x} type={want_type} size={w}x{hh}", s.tr, s.q, s.options, s.ptype, s.dims, want.tr, want.quantizer, want.options),
                        d.replay("decoded standard-mode picture header"),
                    );
                }
            }
        }
    });
    rep.add_states(std_cases.len() as u64);
    // ... also after size changes: every history of intra / predicted / disposable pictures of five
    // shapes (including transposes with identical plane sizes) up to the fixpoint of the state graph
    {
        let w = super::refgraph::size_world();
        let ex = super::refgraph::explore(&w, &rep, "C06", if tier.thorough() { None } else { Some(4) }, false);
        rep.add_states(ex.nodes.len() as u64);
        rep.add_transitions(ex.transitions);
        rep.extra("size_change_graph", json!({"states": ex.nodes.len(), "transitions": ex.transitions, "fixpoint": ex.fixpoint, "max_depth": ex.max_depth}));
    }
    rep.set_rule(
        "header descriptions -> bits (independent writer) -> parser::decode_picture, compared field by field with the description, followed by a 32-bit sentinel that must be the next thing read; every header is also parsed through H263State::parse_picture(.., None) on a fresh decoder and on one with a decoded picture, which must agree with the direct parse: Sorenson: every version, TR, size code, all 256x256 8-bit sizes, all 16-bit widths/heights at 3 fixed partners, type x deblock x quantizer, PEI bytes; H.263: each field of PTYPE / PLUSPTYPE (UFEP, OPPTYPE incl. all 2^10 mode patterns, MPPTYPE, CPM, CPFMT incl. all 512x512 indications and all EPAR, CPCFC/ETR, UUI, SSS, ELNUM/RLNUM, RPSMF, TRPI/TRP, BCI, TRB/DBQUANT, PEI) over its whole range on three base headers, all field pairs over boundary sets, a full cross of reduced domains, inheritance from every subset of OPPTYPE options, plain-PTYPE headers after a header with OPPTYPE-group options switched on (nothing may be inherited), all 8 bit phases x stuffing lengths; non-trivial = H.263 headers",
    );
    rep.sample(json!({"kind": "plusptype-rich", "fields": format!("{:?}", rich_base())}));
    rep.sample(json!({"kind": "sorenson", "fields": "version 1, TR 200, 16-bit size 320x200, disposable, deblocking on, q 31, PEI [1,2] at bit phase 5 with 3 stuffing bits"}));
    rep.assume("RPRP, BCM, format change against the previous header: Err accepted (documented as unimplemented), Ok must be exact; ELNUM in headers without PLUSPTYPE is not asserted");
    rep
}

pub fn replay(case: &serde_json::Value) {
    let bytes = crate::bits::unhex(case["bits"].as_str().unwrap());
    let sor = case["sorenson"].as_bool().unwrap_or(false);
    let scal = case["scalability"].as_bool().unwrap_or(false);
    let prev = case["previous_options"].as_u64().map(|o| make_prev(o as u32, true));
    let mut rd = H263Reader::from_source(&bytes[..]);
    let _ = rd.read_bits::<u32>(case["phase"].as_u64().unwrap_or(0) as u32);
    let r = decode_picture(&mut rd, options(sor, scal), prev.as_ref());
    match r {
        Ok(Some(p)) => println!("parsed: {:#?}", observe(&p)),
        Ok(None) => println!("parsed: Ok(None)"),
        Err(e) => println!("parsed: Err({e:?})"),
    }
    println!("next 32 bits: {:08x?} (sentinel {SENTINEL:08x})", rd.read_bits::<u32>(32).ok());
}
