//! C07 (all 2^24 colours through every code position) and C08 (pixel/chroma pairing at any size).

use crate::bits::{hex, Lcg};
use crate::evidence::{catch, Report, Tier};
use crate::refpost::Bt601;
use h263_rs_yuv::bt601::yuv420_to_rgba;
use rayon::prelude::*;
use serde_json::json;
use std::sync::atomic::{AtomicU64, Ordering};

fn replay_json(w: usize, y: &[u8], cb: &[u8], cr: &[u8]) -> serde_json::Value {
    json!({"kind": "yuv", "width": w, "y": hex(y), "cb": hex(cb), "cr": hex(cr)})
}

pub fn run_c07(tier: Tier) -> Report {
    let rep = Report::new("C07", "yuv", tier);
    let m = Bt601::new();
    rep.set_rule(
        "every (Y,Cb,Cr) in 0..=255^3: (A) uniform 7x1 picture = SIMD lanes 0..3 + remainder slots 0..2; \
         (B) 7 pictures 7x1 with the triple at position p and the complementary colour elsewhere; \
         (C) every triple inside 16- and 32-wide pictures (no remainder columns); (E) every (Cb,Cr) next to six partners derived from it (neutral, neutral in one component, complemented in one component, off by one) on either side within one group of four pixels; (F) one chroma sample differing from an otherwise uniform (neutral or coloured) chroma plane, at every position, widths 1..=40 x heights 1..=4; (G) two neighbouring groups of four pixels (side by side and one below the other) that differ in one or two of their eight sample slots, every pair of slots x all 65536 values x four base groups; (D) all 512 combinations of byte offsets 0..7 of the three plane slices in their buffers on nine shapes; \
         non-trivial = triple with at least one unclamped channel (1..=254)",
    );
    rep.extra("model_coefficients", json!([m.gray, m.cr2r, m.cr2g, m.cb2g, m.cb2b]));
    // result table from the implementation (pixel 0 of the uniform picture), for monotonicity
    let table: Vec<[u8; 3]> = vec![[0u8; 3]; 1 << 24];
    let table_ptr = table.as_ptr() as usize;
    let nontriv = AtomicU64::new(0);
    let contrast = true; // both tiers: ~1.3e8 conversions
    (0..256usize).into_par_iter().for_each(|yv| {
        let mut local_nt = 0u64;
        let mut calls = 0u64;
        for cbv in 0..256usize {
            for crv in 0..256usize {
                let (y8, cb8, cr8) = (yv as u8, cbv as u8, crv as u8);
                let want = m.conv(y8, cb8, cr8);
                if want[..3].iter().any(|c| (1..=254).contains(c)) {
                    local_nt += 1;
                }
                // (A) uniform
                let ly = [y8; 7];
                let lcb = [cb8; 4];
                let lcr = [cr8; 4];
                let out = catch(|| yuv420_to_rgba(&ly, &lcb, &lcr, 7));
                calls += 1;
                match out {
                    Err(p) => rep.violation(
                        &crate::evidence::panic_sig(&p),
                        format!("panic converting ({yv},{cbv},{crv}): {p}"),
                        replay_json(7, &ly, &lcb, &lcr),
                    ),
                    Ok(o) => {
                        if o.len() != 28 {
                            rep.violation("C07/length", format!("7x1 picture gave {} bytes", o.len()), replay_json(7, &ly, &lcb, &lcr));
                        } else {
                            for p in 0..7 {
                                if o[4 * p..4 * p + 4] != want {
                                    let sig = format!(
                                        "C07/{}-{}",
                                        if o[4 * p + 3] != 255 { "alpha" } else { "colour" },
                                        if p < 4 { "lane" } else { "remainder" }
                                    );
                                    rep.violation_lazy(&sig, || {
                                        (format!("(Y,Cb,Cr)=({yv},{cbv},{crv}) at x={p} of a 7x1 picture -> {:?}, BT.601 16.16 model {:?}", &o[4 * p..4 * p + 4], want), replay_json(7, &ly, &lcb, &lcr))
                                    });
                                    break;
                                }
                            }
                            let real = Bt601::real(y8, cb8, cr8);
                            for c in 0..3 {
                                if (o[c] as f64 - real[c]).abs() > 1.0 + 1e-9 {
                                    rep.violation_lazy("C07/real-distance", || (format!("({yv},{cbv},{crv}) channel {c}: {} vs real-valued {:.4}", o[c], real[c]), replay_json(7, &ly, &lcb, &lcr)));
                                }
                            }
                            // SAFETY: each (y,cb,cr) index is written by exactly one task
                            unsafe {
                                let t = table_ptr as *mut [u8; 3];
                                *t.add((yv << 16) | (cbv << 8) | crv) = [o[0], o[1], o[2]];
                            }
                        }
                    }
                }
                if contrast {
                    let (ny, ncb, ncr) = (255 - y8, 255 - cb8, 255 - cr8);
                    let nwant = m.conv(ny, ncb, ncr);
                    for p in 0..7usize {
                        let mut ly = [ny; 7];
                        ly[p] = y8;
                        let mut lcb = [ncb; 4];
                        let mut lcr = [ncr; 4];
                        lcb[p / 2] = cb8;
                        lcr[p / 2] = cr8;
                        calls += 1;
                        match catch(|| yuv420_to_rgba(&ly, &lcb, &lcr, 7)) {
                            Err(pm) => rep.violation(&crate::evidence::panic_sig(&pm), format!("panic: {pm}"), replay_json(7, &ly, &lcb, &lcr)),
                            Ok(o) => {
                                for x in 0..7usize {
                                    let e = if x == p {
                                        want
                                    } else if x / 2 == p / 2 {
                                        m.conv(ny, cb8, cr8)
                                    } else {
                                        nwant
                                    };
                                    if o.len() != 28 || o[4 * x..4 * x + 4] != e {
                                        rep.violation_lazy("C07/colour-mixed-lanes", || {
                                            (format!("triple ({yv},{cbv},{crv}) at x={p} among complementary pixels: pixel {x} = {:?}, model {:?}", o.get(4 * x..4 * x + 4), e), replay_json(7, &ly, &lcb, &lcr))
                                        });
                                        break;
                                    }
                                }
                            }
                        }
                    }
                }
            }
        }
        nontriv.fetch_add(local_nt, Ordering::Relaxed);
        rep.add_transitions(calls);
    });
    rep.add_states(1 << 24);
    rep.add_nontrivial(nontriv.load(Ordering::Relaxed));
    // (C) every triple again inside wide pictures (widths 16 and 32: multiples of 8 and 16, no
    // remainder columns): for each chroma pair one picture holding all 256 luma values
    (0..65536usize).into_par_iter().for_each(|c| {
        let (cbv, crv) = ((c >> 8) as u8, c as u8);
        for (w, h) in [(16usize, 16usize), (32, 8)] {
            let y: Vec<u8> = (0..256).map(|k| k as u8).collect();
            let ch = vec![cbv; (w / 2) * (h / 2)];
            let cr = vec![crv; (w / 2) * (h / 2)];
            match catch(|| yuv420_to_rgba(&y, &ch, &cr, w)) {
                Err(p) => rep.violation(&crate::evidence::panic_sig(&p), format!("{w}x{h} picture with chroma ({cbv},{crv}): panic {p}"), json!({"kind": "yuv-wide", "w": w, "cb": cbv, "cr": crv})),
                Ok(o) => {
                    for k in 0..256usize {
                        if o.len() != 1024 || o[4 * k..4 * k + 4] != m.conv(k as u8, cbv, crv) {
                            rep.violation_lazy("C07/wide-picture-triple", || (format!("({k},{cbv},{crv}) in a {w}x{h} picture converts to {:?}, model {:?}", &o[(4 * k).min(o.len().saturating_sub(4))..], m.conv(k as u8, cbv, crv)), json!({"kind": "yuv-wide", "w": w, "y": k, "cb": cbv, "cr": crv})));
                            break;
                        }
                    }
                }
            }
        }
    });
    rep.add_transitions(2 * 65536);
    // (E) the two chroma samples of one group of four pixels differ: every (Cb,Cr) next to each of six
    // partners derived from it - neutral, neutral in one component, complemented in one component -
    // on either side, in a 4x2 and a 7x2 picture (a decision taken for the whole group from one
    // lane, or from one component of one lane, shows here)
    (0..65536usize).into_par_iter().for_each(|c| {
        let (cbv, crv) = ((c >> 8) as u8, c as u8);
        let partners = [(128u8, 128u8), (cbv, 128), (128, crv), (cbv, 255 - crv), (255 - cbv, crv), (cbv ^ 1, crv ^ 1)];
        for (pcb, pcr) in partners {
            for left_first in [true, false] {
                let (l, r) = if left_first { ((cbv, crv), (pcb, pcr)) } else { ((pcb, pcr), (cbv, crv)) };
                for w in [4usize, 7] {
                    let cw = w.div_ceil(2);
                    let y: Vec<u8> = (0..2 * w).map(|k| [16u8, 125, 200, 235, 81, 41, 106][k % 7].wrapping_add((k / 7) as u8)).collect();
                    // chroma row: l, r, l, r ...
                    let cbp: Vec<u8> = (0..cw).map(|k| if k % 2 == 0 { l.0 } else { r.0 }).collect();
                    let crp: Vec<u8> = (0..cw).map(|k| if k % 2 == 0 { l.1 } else { r.1 }).collect();
                    match catch(|| yuv420_to_rgba(&y, &cbp, &crp, w)) {
                        Err(p) => rep.violation(&crate::evidence::panic_sig(&p), format!("{w}x2 picture with chroma pair {l:?},{r:?}: panic {p}"), replay_json(w, &y, &cbp, &crp)),
                        Ok(o) => {
                            for k in 0..2 * w {
                                let x = k % w;
                                let e = m.conv(y[k], cbp[x / 2], crp[x / 2]);
                                if o.len() != 8 * w || o[4 * k..4 * k + 4] != e {
                                    rep.violation_lazy("C07/colour-chroma-pair-in-one-group", || {
                                        (format!("{w}x2 picture, chroma samples {l:?} and {r:?} side by side: pixel ({x},{}) with luma {} converts to {:?}, model {:?}", k / w, y[k], o.get(4 * k..4 * k + 4), e), replay_json(w, &y, &cbp, &crp))
                                    });
                                    break;
                                }
                            }
                        }
                    }
                }
            }
        }
    });
    rep.add_transitions(65536 * 24);
    // (F) one chroma sample differs from an otherwise uniform chroma plane (see `one_odd_chroma_sweep`)
    {
        let n_f = one_odd_chroma_sweep(&rep, &m, "C07");
        rep.add_transitions(n_f);
        rep.extra("one_odd_chroma_sample_pictures", json!(n_f));
    }
    // (G) neighbouring groups differing in one or two sample slots (see `neighbour_group_sweep`)
    {
        let n_g = neighbour_group_sweep(&rep, &m, "C07", &[[0xFF; 8], [0x80; 8], [16, 125, 200, 235, 90, 144, 240, 128], [0x00; 8]]);
        rep.add_transitions(n_g);
        rep.extra("neighbouring_group_pictures", json!(n_g));
    }
    let n_place = placement_sweep(&rep, &m, "C07", crate::evidence::seed());
    rep.add_transitions(n_place);
    rep.extra("slice_placements", json!(n_place));
    // monotonicity over all adjacent pairs of the 2^24-entry table
    let mono_viol = AtomicU64::new(0);
    let pairs = AtomicU64::new(0);
    (0..256usize).into_par_iter().for_each(|a| {
        let mut n = 0u64;
        for b in 0..256usize {
            for c in 0..255usize {
                // vary each component in turn; index helpers
                let t = |y: usize, cb: usize, cr: usize| table[(y << 16) | (cb << 8) | cr];
                // Y varies: (c -> c+1), cb=a, cr=b : R,G,B non-decreasing
                let (p, q) = (t(c, a, b), t(c + 1, a, b));
                let bad_y = q[0] < p[0] || q[1] < p[1] || q[2] < p[2];
                // Cb varies: y=a, cr=b : B non-decreasing, G non-increasing, R constant
                let (p2, q2) = (t(a, c, b), t(a, c + 1, b));
                let bad_cb = q2[2] < p2[2] || q2[1] > p2[1] || q2[0] != p2[0];
                // Cr varies: y=a, cb=b : R non-decreasing, G non-increasing, B constant
                let (p3, q3) = (t(a, b, c), t(a, b, c + 1));
                let bad_cr = q3[0] < p3[0] || q3[1] > p3[1] || q3[2] != p3[2];
                n += 3;
                if bad_y || bad_cb || bad_cr {
                    if mono_viol.fetch_add(1, Ordering::Relaxed) < 3 {
                        let which = if bad_y { "Y" } else if bad_cb { "Cb" } else { "Cr" };
                        rep.violation(
                            &format!("C07/monotone-{which}"),
                            format!("channel not monotone in {which} near fixed=({a},{b}) step {c}->{}", c + 1),
                            json!({"kind": "yuv-monotone", "component": which, "fixed": [a, b], "step": c}),
                        );
                    }
                }
            }
        }
        pairs.fetch_add(n, Ordering::Relaxed);
    });
    rep.extra("monotonicity_pairs_checked", json!(pairs.load(Ordering::Relaxed)));
    rep.sample(json!({"triple": [16, 128, 128], "layout": "7x1 uniform", "expected_rgba": m.conv(16, 128, 128)}));
    rep.sample(json!({"triple": [81, 90, 240], "layout": "x=5 among complementary pixels", "expected_rgba": m.conv(81, 90, 240)}));
    rep.assume("model: 16.16 coefficients = round(real BT.601 constant * 65536), +32768, arithmetic shift, clamp");
    rep
}

/// (G) neighbouring groups of four pixels: the second group differs from the first in one or two of
/// its eight sample slots (four luma, two Cb, two Cr), every pair of slots x all 65536 values of
/// the pair x the given base groups, side by side in a row (8x2) and one below the other (4x4): a
/// result carried from one group to the next under a comparison that is not injective shows here.
// One chroma sample differs from an otherwise uniform chroma plane - at every position of
// every plane for widths 1..=40 and heights 1..=4: a decision taken for a whole row or picture
// from a scan that misses one position (the tail behind the whole groups, the last row) shows here
fn one_odd_chroma_sweep(rep: &Report, m: &Bt601, prop: &str) -> u64 {
    let bases: [((u8, u8), (u8, u8)); 4] = [((128, 128), (90, 240)), ((128, 128), (128, 240)), ((90, 240), (128, 128)), ((60, 200), (60, 201))];
    let work: Vec<(usize, usize)> = (1..=40usize).flat_map(|w| (1..=4usize).map(move |h| (w, h))).collect();
    let n_f = AtomicU64::new(0);
    work.par_iter().for_each(|&(w, h)| {
        let (cw, chh) = (w.div_ceil(2), h.div_ceil(2));
        let y: Vec<u8> = (0..w * h).map(|k| [16u8, 125, 200, 235, 81, 41, 106, 180, 60][k % 9]).collect();
        for (base, odd) in bases {
            for pos in 0..cw * chh {
                let mut cbp = vec![base.0; cw * chh];
                let mut crp = vec![base.1; cw * chh];
                cbp[pos] = odd.0;
                crp[pos] = odd.1;
                n_f.fetch_add(1, Ordering::Relaxed);
                match catch(|| yuv420_to_rgba(&y, &cbp, &crp, w)) {
                    Err(p) => rep.violation(&crate::evidence::panic_sig(&p), format!("{w}x{h} picture, chroma {base:?} except sample {pos} = {odd:?}: panic {p}"), replay_json(w, &y, &cbp, &crp)),
                    Ok(o) => {
                        for k in 0..w * h {
                            let (x, yy) = (k % w, k / w);
                            let ci = (yy / 2) * cw + x / 2;
                            let e = m.conv(y[k], cbp[ci], crp[ci]);
                            if o.len() != 4 * w * h || o[4 * k..4 * k + 4] != e {
                                rep.violation_lazy(&format!("{prop}/colour-one-odd-chroma-sample"), || {
                                    (format!("{w}x{h} picture, chroma {base:?} everywhere except sample {pos} = {odd:?}: pixel ({x},{yy}) converts to {:?}, model {:?}", o.get(4 * k..4 * k + 4), e), replay_json(w, &y, &cbp, &crp))
                                });
                                break;
                            }
                        }
                    }
                }
            }
        }
    });
    n_f.load(Ordering::Relaxed)
}

fn neighbour_group_sweep(rep: &Report, m: &Bt601, prop: &str, bases: &[[u8; 8]]) -> u64 {
    let pairs: Vec<(usize, usize)> = (0..8usize).flat_map(|i| (i + 1..8).map(move |j| (i, j))).collect();
    let work: Vec<(usize, usize, usize, usize)> = (0..bases.len()).flat_map(|b| pairs.iter().flat_map(move |&(i, j)| (0..256usize).map(move |a| (b, i, j, a)))).collect();
    let n_g = AtomicU64::new(0);
    let sig = format!("{prop}/colour-neighbouring-groups");
    work.par_iter().for_each(|&(b, i, j, a)| {
        let base = bases[b];
        for v in 0..256usize {
            let mut g2 = base;
            g2[i] = a as u8;
            g2[j] = v as u8;
            if g2 == base {
                continue;
            }
            for side_by_side in [true, false] {
                // groups in conversion order: base, base, variant, variant (4x4) or base|variant twice (8x2)
                let (w, y, cbp, crp): (usize, Vec<u8>, Vec<u8>, Vec<u8>) = if side_by_side {
                    let row: Vec<u8> = base[..4].iter().chain(g2[..4].iter()).copied().collect();
                    (8, row.iter().chain(row.iter()).copied().collect(), vec![base[4], base[5], g2[4], g2[5]], vec![base[6], base[7], g2[6], g2[7]])
                } else {
                    (4, base[..4].iter().chain(base[..4].iter()).chain(g2[..4].iter()).chain(g2[..4].iter()).copied().collect(), vec![base[4], base[5], g2[4], g2[5]], vec![base[6], base[7], g2[6], g2[7]])
                };
                n_g.fetch_add(1, Ordering::Relaxed);
                match catch(|| yuv420_to_rgba(&y, &cbp, &crp, w)) {
                    Err(p) => rep.violation(&crate::evidence::panic_sig(&p), format!("{w}-wide picture of two neighbouring groups: panic {p}"), replay_json(w, &y, &cbp, &crp)),
                    Ok(o) => {
                        let cw = w / 2;
                        for k in 0..16usize {
                            let (x, yy) = (k % w, k / w);
                            let ci = (yy / 2) * cw + x / 2;
                            let e = m.conv(y[k], cbp[ci], crp[ci]);
                            if o.len() != 64 || o[4 * k..4 * k + 4] != e {
                                rep.violation_lazy(&sig, || {
                                    (format!("groups {base:?} and {g2:?} (four luma, two Cb, two Cr) {}: pixel ({x},{yy}) converts to {:?}, model {:?}", if side_by_side { "side by side in an 8x2 picture" } else { "one below the other in a 4x4 picture" }, o.get(4 * k..4 * k + 4), e), replay_json(w, &y, &cbp, &crp))
                                });
                                break;
                            }
                        }
                    }
                }
            }
        }
    });
    n_g.load(Ordering::Relaxed)
}

/// Placement of the three plane slices in memory: every combination of byte offsets 0..8 of the
/// luma and the two chroma slices within their buffers (allocations are 16-byte aligned, so the
/// offset is the address modulo 8), for shapes whose widths are and are not multiples of 4, 8, 16.
/// The result must not depend on where a slice starts.
pub fn placement_sweep(rep: &Report, m: &Bt601, prop: &str, seed: u64) -> u64 {
    let shapes: [(usize, usize); 9] = [(8, 2), (16, 2), (16, 3), (24, 4), (32, 2), (64, 3), (7, 3), (12, 2), (4, 4)];
    let work: Vec<(usize, usize, usize)> = (0..shapes.len()).flat_map(|s| (0..512usize).map(move |o| (s, o, 0))).collect();
    work.par_iter().for_each(|&(si, o, _)| {
        let (w, h) = shapes[si];
        let (oy, ob, orr) = (o & 7, (o >> 3) & 7, (o >> 6) & 7);
        let (y, cb, cr) = content(0, w, h, seed ^ 0x51);
        let place = |v: &[u8], off: usize| -> Vec<u8> {
            let mut b = vec![0xEEu8; v.len() + 16];
            b[off..off + v.len()].copy_from_slice(v);
            b
        };
        let (by, bb, br) = (place(&y, oy), place(&cb, ob), place(&cr, orr));
        let (sy, sb, sr) = (&by[oy..oy + y.len()], &bb[ob..ob + cb.len()], &br[orr..orr + cr.len()]);
        let cw = (w + 1) / 2;
        match catch(|| yuv420_to_rgba(sy, sb, sr, w)) {
            Err(p) => rep.violation(&crate::evidence::panic_sig(&p), format!("{w}x{h}, plane slices at byte offsets ({oy},{ob},{orr}) of their buffers: panic {p}"), json!({"kind": "yuv-placement", "w": w, "h": h, "offsets": [oy, ob, orr]})),
            Ok(out) => {
                let ok = out.len() == 4 * w * h && (0..w * h).all(|k| out[4 * k..4 * k + 4] == m.conv(y[k], cb[(k / w / 2) * cw + (k % w) / 2], cr[(k / w / 2) * cw + (k % w) / 2]));
                if !ok {
                    rep.violation(&format!("{prop}/depends-on-slice-placement"), format!("{w}x{h}: with the plane slices at byte offsets ({oy},{ob},{orr}) of their buffers the conversion differs from the model"), json!({"kind": "yuv-placement", "w": w, "h": h, "offsets": [oy, ob, orr]}));
                }
            }
        }
    });
    work.len() as u64
}

/// content generators for the shape sweep; returns (y, cb, cr)
fn content(kind: usize, w: usize, h: usize, seed: u64) -> (Vec<u8>, Vec<u8>, Vec<u8>) {
    let (cw, ch) = ((w + 1) / 2, (h + 1) / 2);
    let mut rng = Lcg::new(seed ^ ((w as u64) << 20) ^ ((h as u64) << 8) ^ kind as u64);
    let ycode = |x: usize, y: usize| ((x * 31 + y * 17 + 5) & 0xFF) as u8;
    let bcode = |x: usize, y: usize| ((x * 29 + y * 53 + 7) & 0xFF) as u8;
    let rcode = |x: usize, y: usize| ((x * 11 + y * 71 + 3) & 0xFF) as u8;
    let mut y = vec![0u8; w * h];
    let mut cb = vec![0u8; cw * ch];
    let mut cr = vec![0u8; cw * ch];
    for j in 0..h {
        for i in 0..w {
            y[j * w + i] = match kind {
                1 => rng.below(256) as u8,
                2 => 128,
                3 => ycode(i, 0),
                4 => ycode(0, j),
                _ => ycode(i, j),
            };
        }
    }
    for j in 0..ch {
        for i in 0..cw {
            let (b, r) = match kind {
                1 => (rng.below(256) as u8, rng.below(256) as u8),
                5 => (90, 200),
                6 => (bcode(i, 0), rcode(i, 0)),
                7 => (bcode(0, j), rcode(0, j)),
                _ => (bcode(i, j), rcode(i, j)),
            };
            cb[j * cw + i] = b;
            cr[j * cw + i] = r;
        }
    }
    (y, cb, cr)
}
const CONTENT_NAMES: [&str; 8] = [
    "position-coded", "noise", "flat-luma", "luma-by-column", "luma-by-row", "flat-chroma", "chroma-by-column", "chroma-by-row",
];

fn check_picture(rep: &Report, m: &Bt601, w: usize, h: usize, y: &[u8], cb: &[u8], cr: &[u8], label: &str) {
    let cw = (w + 1) / 2;
    match catch(|| yuv420_to_rgba(y, cb, cr, w)) {
        Err(p) => rep.violation(&crate::evidence::panic_sig(&p), format!("{w}x{h} {label}: panic {p}"), replay_json(w, y, cb, cr)),
        Ok(o) => {
            if o.len() != 4 * w * h {
                rep.violation("C08/length", format!("{w}x{h} {label}: {} bytes, expected {}", o.len(), 4 * w * h), replay_json(w, y, cb, cr));
                return;
            }
            for j in 0..h {
                for i in 0..w {
                    let e = m.conv(y[j * w + i], cb[(j / 2) * cw + i / 2], cr[(j / 2) * cw + i / 2]);
                    let k = 4 * (j * w + i);
                    if o[k..k + 4] != e {
                        let class = if i >= w - w % 4 { "remainder-columns" } else { "vector-body" };
                        rep.violation(
                            &format!("C08/pairing-{class}"),
                            format!("{w}x{h} {label}: pixel ({i},{j}) = {:?}, conversion of luma ({i},{j}) with chroma ({},{}) = {:?}", &o[k..k + 4], i / 2, j / 2, e),
                            replay_json(w, y, cb, cr),
                        );
                        return;
                    }
                }
            }
        }
    }
}

pub fn run_c08(tier: Tier) -> Report {
    let rep = Report::new("C08", "yuv", tier);
    let m = Bt601::new();
    let seed = crate::evidence::seed();
    let (maxw, maxh) = if tier.thorough() { (512, 64) } else { (160, 24) };
    rep.set_rule(&format!(
        "all widths 1..={maxw} x heights 1..={maxh} x 8 content classes {:?} (+ extras 352x288, 1x1000, 1000x1; every height / width up to 700 (thorough 3000) next to 2, 3 or 7; prime heights and widths up to 10^6 (thorough 4*10^6)); all 512 combinations of byte offsets 0..7 of the three plane slices in their buffers on nine shapes; all row-equality and column-equality patterns of two luma patterns for shapes <= 6x6; all sequences of three calls over 24 small pictures on one thread (purity); \
         non-trivial = shape whose width is not a multiple of 4 or whose height is odd",
        CONTENT_NAMES
    ));
    let mut shapes: Vec<(usize, usize)> = vec![];
    for w in 1..=maxw {
        for h in 1..=maxh {
            shapes.push((w, h));
        }
    }
    shapes.extend([(352, 288), (1, 1000), (1000, 1), (2, 257), (257, 2), (5, 33)]);
    // very wide / very tall pictures (16-bit Sorenson sizes)
    shapes.extend([(1028, 2), (1030, 3), (2049, 2), (4100, 3), (3, 4100), (2, 65535), (65535, 2), (1023, 5), (1024, 4), (704, 576)]);
    // dense windows of one dimension next to a tiny other one, and sizes in general position
    // (primes, geometrically spaced up to 4*10^6): row/column index arithmetic that is only wrong
    // for particular residues or beyond a particular magnitude
    let win = if tier.thorough() { 3000 } else { 700 };
    for v in 1..=win {
        shapes.extend([(2, v), (7, v), (v, 2), (v, 3)]);
    }
    for p in [1009usize, 2003, 4099, 10007, 20011, 40009, 65537, 100003, 200003, 400009, 524287, 1000003, 2000003, 4000037] {
        if p > 1_100_000 && !tier.thorough() {
            continue;
        }
        shapes.extend([(2, p), (3, p), (p, 2), (p, 3)]);
    }
    let nt = shapes.iter().filter(|(w, h)| w % 4 != 0 || h % 2 != 0).count() as u64;
    shapes.par_iter().for_each(|&(w, h)| {
        for kind in 0..8 {
            let (y, cb, cr) = content(kind, w, h, seed);
            check_picture(&rep, &m, w, h, &y, &cb, &cr, CONTENT_NAMES[kind]);
            rep.add_transitions(1);
        }
    });
    rep.add_states(shapes.len() as u64 * 8);
    rep.add_nontrivial(nt);
    // pairing across neighbouring groups: the second group differs from the first in one or two
    // sample slots (all values), two base groups - each pixel must be converted from its own samples
    {
        let n_g = neighbour_group_sweep(&rep, &m, "C08", &[[0xFF; 8], [16, 125, 200, 235, 90, 144, 240, 128]]);
        rep.add_transitions(n_g);
        rep.extra("neighbouring_group_pictures", json!(n_g));
    }
    // one chroma sample differs from an otherwise uniform (neutral or coloured) chroma plane, at every
    // position, widths 1..=40 x heights 1..=4: the sample behind the whole groups of a row, or of the
    // last row, must still reach its own pixels
    {
        let n_f = one_odd_chroma_sweep(&rep, &m, "C08");
        rep.add_transitions(n_f);
        rep.add_states(n_f);
        rep.extra("one_odd_chroma_sample_pictures", json!(n_f));
    }
    let n_place = placement_sweep(&rep, &m, "C08", seed);
    rep.add_transitions(n_place);
    rep.add_states(n_place);
    rep.extra("slice_placements", json!(n_place));
    // exhaustive equality patterns on small shapes
    let mut small = vec![];
    for w in 1..=6usize {
        for h in 1..=6usize {
            for rows in 0..(1u32 << h) {
                small.push((w, h, rows, true));
            }
            for cols in 0..(1u32 << w) {
                small.push((w, h, cols, false));
            }
        }
    }
    small.par_iter().for_each(|&(w, h, mask, by_row)| {
        let (_, cb, cr) = content(0, w, h, seed);
        let mut y = vec![0u8; w * h];
        for j in 0..h {
            for i in 0..w {
                let sel = if by_row { mask >> j & 1 } else { mask >> i & 1 };
                let along = if by_row { i } else { j };
                y[j * w + i] = if sel == 1 { (200 - along * 9) as u8 } else { (40 + along * 7) as u8 };
            }
        }
        check_picture(&rep, &m, w, h, &y, &cb, &cr, if by_row { "row-pattern" } else { "column-pattern" });
        rep.add_transitions(1);
    });
    rep.add_states(small.len() as u64);
    // call histories: the conversion is a pure function, so a picture's result must not depend on
    // what was converted before (on this thread). All sequences of three calls over an alphabet of
    // small pictures that share sizes / width groups / chroma rows but differ in content.
    {
        let shapes: [(usize, usize); 8] = [(4, 1), (4, 2), (8, 2), (8, 1), (5, 3), (4, 4), (2, 2), (7, 1)];
        let mut letters: Vec<(usize, usize, Vec<u8>, Vec<u8>, Vec<u8>)> = vec![];
        for &(w, h) in &shapes {
            let (y0, cb0, cr0) = content(0, w, h, seed);
            let (y1, cb1, cr1) = content(1, w, h, seed ^ 99);
            letters.push((w, h, y0.clone(), cb0.clone(), cr0.clone()));
            letters.push((w, h, y0.clone(), cb1, cr1)); // same luma, other chroma
            letters.push((w, h, y1, cb0, cr0)); // other luma, same chroma
        }
        let n = letters.len();
        let rep_ref = &rep;
        let m_ref = &m;
        let letters_ref = &letters;
        // one dedicated thread, fixed order: histories are deterministic
        std::thread::scope(|sc| {
            sc.spawn(move || {
                crate::evidence::install_panic_hook();
                for a in 0..n {
                    for b in 0..n {
                        for c in 0..n {
                            for &k in &[a, b, c] {
                                let l = &letters_ref[k];
                                check_picture(rep_ref, m_ref, l.0, l.1, &l.2, &l.3, &l.4, "call-history");
                            }
                        }
                    }
                }
            });
        });
        rep.add_transitions(3 * (n * n * n) as u64);
        rep.add_states((n * n * n) as u64);
        rep.extra("call_history_sequences", json!(n * n * n));
    }
    // the empty picture
    match catch(|| yuv420_to_rgba(&[], &[], &[], 0)) {
        Ok(o) if o.is_empty() => {}
        Ok(o) => rep.violation("C08/empty", format!("empty picture produced {} bytes", o.len()), json!({"kind": "yuv", "width": 0, "y": "", "cb": "", "cr": ""})),
        Err(p) => rep.violation("C08/empty-panic", format!("empty picture panicked: {p}"), json!({"kind": "yuv", "width": 0, "y": "", "cb": "", "cr": ""})),
    }
    rep.add_states(1);
    rep.add_transitions(1);
    rep.sample(json!({"shape": [5, 3], "content": "position-coded", "check": "pixel(x,y) = conv(Y[x,y], Cb[x/2,y/2], Cr[x/2,y/2]) for all 15 pixels"}));
    rep.sample(json!({"shape": [3, 4], "content": "row-pattern mask 0b0110 (rows 1 and 2 share a luma pattern across a chroma-row boundary)"}));
    rep.sample(json!({"shape": [0, 0], "content": "empty picture -> empty output"}));
    rep.assume("per-pixel conversion is the C07 model (checked exhaustively by C07)");
    rep
}

pub fn replay(case: &serde_json::Value) {
    let w = case["width"].as_u64().unwrap() as usize;
    let y = crate::bits::unhex(case["y"].as_str().unwrap());
    let cb = crate::bits::unhex(case["cb"].as_str().unwrap());
    let cr = crate::bits::unhex(case["cr"].as_str().unwrap());
    let m = Bt601::new();
    match catch(|| yuv420_to_rgba(&y, &cb, &cr, w)) {
        Err(p) => println!("panic: {p}"),
        Ok(o) => {
            let h = if w == 0 { 0 } else { y.len() / w };
            let cw = (w + 1) / 2;
            let mut bad = 0;
            for j in 0..h {
                for i in 0..w {
                    let e = m.conv(y[j * w + i], cb[(j / 2) * cw + i / 2], cr[(j / 2) * cw + i / 2]);
                    let k = 4 * (j * w + i);
                    if o.get(k..k + 4) != Some(&e[..]) {
                        if bad < 10 {
                            println!("pixel ({i},{j}): got {:?} model {:?}", o.get(k..k + 4), e);
                        }
                        bad += 1;
                    }
                }
            }
            println!("{w}x{h}: output {} bytes, {bad} pixel(s) differ from the model", o.len());
        }
    }
}
