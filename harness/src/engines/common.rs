//! Shared driver: decode a syntax tree with the real decoder and with the reference decoder, compare.

use crate::bits::hex;
use crate::evidence::panic_sig;
use crate::refdec::{self, CmpStats, Decoded, Planes};
use crate::syntax::*;
use crate::util::*;
use h263_rs::H263State;
use serde_json::{json, Value};

pub struct Fail {
    pub sig: String,
    pub what: String,
}

/// A real decoder paired with the model's view of the reference picture.
pub struct Dec {
    pub st: H263State,
    pub opts: u8,
    /// reference picture as the model tracks it (last non-disposable decoded picture)
    pub mref: Option<Planes>,
    /// bytes fed so far (for replay files)
    pub fed: Vec<Vec<u8>>,
}

pub fn replay_seq(opts: u8, steps: &[Vec<u8>], note: &str) -> Value {
    json!({"kind": "decode", "options": opts, "steps": steps.iter().map(|b| hex(b)).collect::<Vec<_>>(), "note": note})
}

impl Dec {
    pub fn new(opts: u8) -> Dec {
        Dec { st: H263State::new(options_from_bits(opts)), opts, mref: None, fed: vec![] }
    }
    pub fn for_hdr(h: &Hdr) -> Dec {
        Dec::new(if h.is_sorenson() { 1 } else { 0 })
    }
    pub fn replay(&self, note: &str) -> Value {
        replay_seq(self.opts, &self.fed, note)
    }

    /// Decode `pic` (encoded by the independent bit writer) on the real decoder; evaluate the same
    /// tree with the reference decoder; compare outcome, plane sizes and every sample.
    pub fn step(&mut self, pic: &Pic, prop: &str, stats: &mut CmpStats) -> Result<Option<Decoded>, Fail> {
        let bytes = encode_bytes(pic);
        self.step_bytes(pic, &bytes, prop, stats)
    }

    pub fn step_bytes(&mut self, pic: &Pic, bytes: &[u8], prop: &str, stats: &mut CmpStats) -> Result<Option<Decoded>, Fail> {
        self.fed.push(bytes.to_vec());
        let out = decode_bytes(&mut self.st, bytes);
        let model = refdec::decode(pic, self.mref.as_ref());
        let desc = describe(pic);
        match (out, model) {
            (Outcome::Panic(p), _) => Err(Fail { sig: panic_sig(&p), what: format!("{desc}: decoder panicked: {p}") }),
            (Outcome::Err(e), Ok(_)) => Err(Fail { sig: format!("{prop}/valid-picture-rejected-{e}"), what: format!("{desc}: valid picture rejected with {e}") }),
            (Outcome::Ok, Err(why)) => Err(Fail { sig: format!("{prop}/invalid-picture-accepted"), what: format!("{desc}: accepted, but the reference decoder rejects it: {why}") }),
            (Outcome::Err(_), Err(_)) => Ok(None),
            (Outcome::Ok, Ok(d)) => {
                let snap = last_snap(&self.st).ok_or_else(|| Fail { sig: format!("{prop}/no-last-picture"), what: format!("{desc}: Ok but get_last_picture() is None") })?;
                let (w, h) = (d.planes.w, d.planes.h);
                if snap.dims != Some((w as u16, h as u16)) {
                    return Err(Fail { sig: format!("{prop}/format-size"), what: format!("{desc}: format() reports {:?}, header signals {w}x{h}", snap.dims) });
                }
                if snap.crow != d.planes.cw {
                    return Err(Fail { sig: format!("{prop}/chroma-row"), what: format!("{desc}: chroma_samples_per_row() = {}, expected {}", snap.crow, d.planes.cw) });
                }
                if let Some(diff) = refdec::compare((&snap.y, &snap.cb, &snap.cr), &d, stats) {
                    let plane = diff.split('[').next().unwrap_or("?").split(':').next().unwrap_or("?").to_string();
                    return Err(Fail { sig: format!("{prop}/sample-{}-{}", pic_kind(pic), plane), what: format!("{desc}: {diff}") });
                }
                // keep the model in lock-step with the implementation (differences are inside the tie band)
                let adopted = Planes::from_yuv(w, h, &snap.y, &snap.cb, &snap.cr);
                match pic.hdr.pic_type() {
                    PicType::I | PicType::P => self.mref = Some(adopted),
                    _ => {}
                }
                Ok(Some(d))
            }
        }
    }
}

pub fn pic_kind(p: &Pic) -> &'static str {
    match p.hdr.pic_type() {
        PicType::I => "intra",
        PicType::P => "inter",
        PicType::D => "disposable",
        PicType::Other => "other",
    }
}

pub fn describe(p: &Pic) -> String {
    let dims = p.hdr.dims();
    let mode = match &p.hdr {
        Hdr::S(h) => format!("Sorenson v{}", h.version),
        Hdr::Std(h) => if h.plus.is_some() { "H.263 PLUSPTYPE".to_string() } else { "H.263 baseline".to_string() },
    };
    let mut kinds = vec![];
    for m in p.mbs.iter().take(12) {
        kinds.push(match m {
            Mb::NotCoded => "nc".to_string(),
            Mb::Stuffing => "stuff".to_string(),
            Mb::Raw(b) => format!("raw{}", b.len()),
            Mb::Coded { kind, dquant, mvd, blocks } => {
                let cbp: String = blocks.iter().map(|b| if b.ev.is_empty() { '0' } else { '1' }).collect();
                format!("{kind:?}{}{} cbp{cbp}", if kind.has_q() { format!(" dq{dquant}") } else { String::new() }, if mvd.is_empty() { String::new() } else { format!(" mvd{mvd:?}") })
            }
        });
    }
    format!("{mode} {} picture {:?} q={} tr={} mbs=[{}{}]", pic_kind(p), dims, p.hdr.q(), p.hdr.tr(), kinds.join(", "), if p.mbs.len() > 12 { ", ..." } else { "" })
}

/// Replayer for `decode` cases: feeds the recorded byte strings to a fresh decoder.
pub fn replay_decode(case: &Value) {
    let opts = case["options"].as_u64().unwrap_or(1) as u8;
    // a failure may depend on what another decoder did on this thread just before
    if let Some(prev) = case.get("preceding_case_same_thread").filter(|p| p.is_object()) {
        let mut other = H263State::new(options_from_bits(prev["options"].as_u64().unwrap_or(1) as u8));
        for s in prev["steps"].as_array().into_iter().flatten() {
            let o = decode_bytes(&mut other, &crate::bits::unhex(s.as_str().unwrap_or("")));
            println!("preceding case (another decoder, same thread): {}", o.short());
        }
    }
    let mut st = H263State::new(options_from_bits(opts));
    println!("decoder options bits = {opts} ({})", case["note"].as_str().unwrap_or(""));
    for (i, s) in case["steps"].as_array().unwrap().iter().enumerate() {
        let s = s.as_str().unwrap();
        if s == "cleanup" {
            st.cleanup_buffers();
            println!("step {i}: cleanup_buffers()");
            continue;
        }
        let bytes = crate::bits::unhex(s);
        let o = decode_bytes(&mut st, &bytes);
        let snap = last_snap(&st);
        println!(
            "step {i}: {} bytes -> {}; last picture: {}",
            bytes.len(),
            o.short(),
            snap.map(|s| format!("{:?} tr={} type={} q={} hash={:016x} luma[..8]={:?}", s.dims, s.tr, s.ptype, s.q, s.hash(), &s.y[..s.y.len().min(8)])).unwrap_or("none".into())
        );
    }
    if let Some(e) = case.get("expected") {
        println!("expected: {e}");
    }
}

/// Boundary lattice of picture dimensions: every power of two up to 2^15 with both neighbours,
/// three times every power of two, the named formats, round decimal sizes, primes, and 65535. Engines cross it with itself
/// and keep the pairs under their pixel cap, so that a fault tied to a joint condition on width
/// and height (a product, a residue of the product, a size class) is inside the explored set
/// rather than between two probes.
pub fn dim_lattice() -> Vec<u16> {
    let mut v: Vec<u32> = vec![1, 2, 3, 5, 65535, 65534, 65520, 120, 144, 160, 176, 240, 288, 320, 352, 576, 704, 1152, 1408];
    // round decimal video sizes and primes (values in general position)
    v.extend([480, 600, 640, 720, 800, 1000, 1080, 1280, 1500, 1920, 10000, 50000]);
    v.extend([13, 37, 101, 331, 1009, 2003, 4099, 10007, 20011, 40009, 65521]);
    for k in 3..=15u32 {
        v.extend([(1 << k) - 1, 1 << k, (1 << k) + 1]);
        if 3 << (k - 1) < 65536 {
            v.push(3 << (k - 1));
        }
    }
    v.sort();
    v.dedup();
    v.into_iter().map(|x| x as u16).collect()
}

/// All pairs of the lattice with at most `cap` pixels.
pub fn size_lattice(cap: u64) -> Vec<(u16, u16)> {
    let d = dim_lattice();
    let mut out = vec![];
    for &w in &d {
        for &h in &d {
            if w as u64 * h as u64 <= cap {
                out.push((w, h));
            }
        }
    }
    out
}
