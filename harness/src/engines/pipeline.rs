//! C13: every decoded picture can be deblocked (strength from Table J.2) and converted to RGBA.

use super::common::*;
use super::inter::shdr;
use super::intra::coded_intra;
use crate::evidence::{catch, panic_sig, Report, Tier};
use crate::refhdr::StdHdr;
use crate::syntax::*;
use crate::util::*;
use h263_rs::H263State;
use h263_rs_deblock::deblock::{deblock, QUANT_TO_STRENGTH};
use h263_rs_yuv::bt601::yuv420_to_rgba;
use rayon::prelude::*;
use serde_json::json;

fn post_process(rep: &Report, st: &H263State, what: &str, replay: serde_json::Value) {
    let p = match st.get_last_picture() {
        Some(p) => p,
        None => {
            rep.violation("C13/no-picture", format!("{what}: no picture after a successful decode"), replay);
            return;
        }
    };
    let (w, h) = match p.format().into_width_and_height() {
        Some(d) => (d.0 as usize, d.1 as usize),
        None => {
            rep.violation("C13/no-dimensions", format!("{what}: decoded picture without dimensions"), replay);
            return;
        }
    };
    let (y, cb, cr) = p.as_yuv();
    let (cw, ch) = ((w + 1) / 2, (h + 1) / 2);
    if y.len() != w * h || cb.len() != cw * ch || cr.len() != cw * ch || p.chroma_samples_per_row() != cw {
        rep.violation(
            "C13/plane-size-relation",
            format!("{what}: {w}x{h}: luma {} (want {}), chroma {} / {} (want {}), chroma row {} (want {cw})", y.len(), w * h, cb.len(), cr.len(), cw * ch, p.chroma_samples_per_row()),
            replay,
        );
        return;
    }
    let q = p.as_header().quantizer as usize;
    if !(1..=31).contains(&q) {
        return; // quantizer 0 has no tabulated strength
    }
    let s = QUANT_TO_STRENGTH[q];
    let r = catch(|| {
        let dy = deblock(y, w, s);
        let dcb = deblock(cb, cw, s);
        let dcr = deblock(cr, cw, s);
        let rgba = yuv420_to_rgba(&dy, &dcb, &dcr, w);
        (dy.len(), dcb.len(), dcr.len(), rgba.len())
    });
    match r {
        Err(pm) => rep.violation(&panic_sig(&pm), format!("{what}: {w}x{h} q={q} strength {s}: post-processing panicked: {pm}"), replay),
        Ok((a, b, c, n)) => {
            if a != w * h || b != cw * ch || c != cw * ch || n != 4 * w * h {
                rep.violation("C13/output-size", format!("{what}: {w}x{h}: deblocked planes {a}/{b}/{c}, RGBA {n} bytes (want {})", 4 * w * h), replay);
            }
        }
    }
}

pub fn run(tier: Tier) -> Report {
    let rep = Report::new("C13", "pipeline", tier);
    let maxd: u16 = if tier.thorough() { 200 } else { 48 };
    let mut cases: Vec<(u16, u16, u8, u8)> = vec![]; // w, h, q, kind (0 I, 1 I+P, 2 I+D)
    for w in 1..=maxd {
        for h in 1..=maxd {
            for q in 1..=31u8 {
                let full = (w <= 20 && h <= 20) || (tier.thorough() && w <= 64 && h <= 64);
                // pairwise beyond 20: quantizer tied to the size so that every (w,q) and (h,q) pair occurs
                if full || q as u16 == 1 + (w + h) % 31 || q as u16 == 1 + (w * 7 + h * 3) % 31 {
                    cases.push((w, h, q, 0));
                }
            }
            cases.push((w, h, 1 + ((w + 2 * h) % 31) as u8, 1));
            cases.push((w, h, 1 + ((2 * w + h) % 31) as u8, 2));
        }
    }
    for &(w, h) in &[(1u16, 255u16), (255, 1), (176, 144), (2, 300), (300, 2), (9, 9), (10, 10), (65, 3)] {
        for q in [1u8, 16, 31] {
            cases.push((w, h, q, 0));
        }
    }
    // medium sizes: every residue mod 16 just above 256, 512 and 1024, as width and as height
    for base in [256u16, 512, 1024] {
        for r in 0..16u16 {
            cases.push((base + r, 17, 1 + (r % 31) as u8, (r % 3) as u8));
            cases.push((18, base + r, 31 - (r % 31) as u8, ((r + 1) % 3) as u8));
        }
    }
    // boundary lattice of dimensions, all pairs under the pixel cap
    let lattice = size_lattice(if tier.thorough() { 1 << 22 } else { 1 << 20 });
    rep.extra("size_lattice_pairs", json!(lattice.len()));
    for (i, &(w, h)) in lattice.iter().enumerate() {
        cases.push((w, h, 1 + (i * 11 % 31) as u8, (i % 3) as u8));
    }
    // dense windows: every height / width up to 700 (thorough 1500) next to a fixed 24, so that every
    // residue of the luma and chroma plane dimensions modulo anything up to a few hundred occurs
    let win: u16 = if tier.thorough() { 1500 } else { 700 };
    for v in (maxd + 1)..=win {
        cases.push((24, v, 1 + (v % 31) as u8, (v % 3) as u8));
        cases.push((v, 24, 31 - (v % 31) as u8, ((v + 1) % 3) as u8));
    }
    for &(w, h) in &[(1009u16, 331u16), (331, 1009), (2003, 151), (151, 2003), (4099, 67), (67, 4099), (10007, 29), (29, 10007), (611, 433), (720, 577), (1920, 1081)] {
        cases.push((w, h, 9, 1));
    }
    cases.push((2049, 17, 5, 1));
    cases.push((17, 2049, 5, 2));
    // more than 2^24 samples (sizes whose product is not representable in single precision)
    cases.push((4097, 4101, 3, 0));
    // ... and one whose *chroma* sample count (ceil(w/2) * ceil(h/2)) is beyond 2^24 and odd
    cases.push((8193, 8193, 3, 0));
    if tier.thorough() {
        cases.push((352, 288, 9, 1));
        cases.push((1000, 3, 4, 0));
        cases.push((6001, 6002, 7, 0));
        cases.push((65535, 33, 2, 0));
        cases.push((33, 65535, 2, 0));
    }
    cases.par_iter().for_each(|&(w, h, q, kind)| {
        let version = ((w as u32 + h as u32) % 2) as u8;
        let mut d = Dec::new(1);
        let ipic = coded_intra(shdr(w, h, 0, 0, q, version));
        let bytes = encode_bytes(&ipic);
        d.fed.push(bytes.clone());
        match decode_bytes(&mut d.st, &bytes) {
            Outcome::Ok => {}
            o => {
                rep.violation(&format!("C13/decode-{}", if o.is_panic() { "panic" } else { "rejected" }), format!("{w}x{h} q={q} intra picture: {}", o.short()), d.replay("pipeline"));
                return;
            }
        }
        if kind > 0 {
            let (mbw, mbh) = mb_grid(w, h);
            let mbs: Vec<Mb> = (0..mbw * mbh).map(|i| if i % 3 == 2 { Mb::NotCoded } else { Mb::inter(((i % 7) as i8 - 3, (i % 5) as i8 - 2)) }).collect();
            let p = Pic { hdr: shdr(w, h, kind, 1, q, version), mbs };
            let bytes = encode_bytes(&p);
            d.fed.push(bytes.clone());
            match decode_bytes(&mut d.st, &bytes) {
                Outcome::Ok => {}
                o => {
                    rep.violation(&format!("C13/decode-{}", if o.is_panic() { "panic" } else { "rejected" }), format!("{w}x{h} q={q} predicted picture kind {kind}: {}", o.short()), d.replay("pipeline"));
                    return;
                }
            }
        }
        post_process(&rep, &d.st, &format!("{} picture", ["I", "P", "D"][kind as usize]), d.replay("pipeline"));
    });
    rep.add_transitions(cases.len() as u64);
    rep.add_states(cases.len() as u64);
    rep.add_nontrivial(cases.iter().filter(|c| c.0 < 10 || c.1 < 10 || c.0 % 2 == 1 || c.1 % 2 == 1).count() as u64);
    // size changes: a predicted / disposable picture announcing another size than the reference
    // (fully coded, all skipped, or without any macroblock data) - whatever is accepted must still
    // satisfy the plane relations and survive post-processing
    let szs: [(u16, u16); 7] = [(16, 16), (32, 16), (16, 32), (24, 16), (17, 3), (48, 32), (1, 1)];
    let mut n_sc = 0u64;
    for &(wa, ha) in &szs {
        for &(wb, hb) in &szs {
            for kind in [1u8, 2] {
                for body in 0..3usize {
                    n_sc += 1;
                    let mut d = Dec::new(1);
                    let ipic = coded_intra(shdr(wa, ha, 0, 0, 7, 0));
                    let b0 = encode_bytes(&ipic);
                    d.fed.push(b0.clone());
                    if !decode_bytes(&mut d.st, &b0).is_ok() {
                        continue;
                    }
                    let (mbw, mbh) = mb_grid(wb, hb);
                    let mbs: Vec<Mb> = match body {
                        0 => (0..mbw * mbh).map(|_| Mb::NotCoded).collect(),
                        1 => vec![],
                        _ => (0..mbw * mbh).map(|i| if i % 2 == 0 { Mb::inter((1, -1)) } else { Mb::NotCoded }).collect(),
                    };
                    let p = Pic { hdr: shdr(wb, hb, kind, 1, 9, 0), mbs };
                    let bytes = encode_bytes(&p);
                    d.fed.push(bytes.clone());
                    match decode_bytes(&mut d.st, &bytes) {
                        Outcome::Panic(pm) => rep.violation(&panic_sig(&pm), format!("{wb}x{hb} picture after a {wa}x{ha} reference: {pm}"), d.replay("size change")),
                        Outcome::Err(_) => {
                            if (wa, ha) == (wb, hb) {
                                rep.violation("C13/same-size-prediction-rejected", format!("{wb}x{hb} predicted picture (body {body}) over a reference of the same size rejected"), d.replay("size change"));
                            }
                        }
                        Outcome::Ok => post_process(&rep, &d.st, &format!("{wb}x{hb} picture (type {kind}, body {body}) after a {wa}x{ha} reference"), d.replay("size change")),
                    }
                }
            }
        }
    }
    // three pictures: a reference of size A, a predicted / disposable picture of size B made of
    // intra macroblocks only (the one way a non-key picture can change the size), then a picture of
    // size A or B with nothing coded / no data / some inter macroblocks. Whatever is accepted must
    // satisfy the plane relations of the size it reports.
    let mut n_three = 0u64;
    let sz3: [(u16, u16); 5] = [(16, 16), (32, 16), (16, 32), (24, 24), (17, 3)];
    let mut work3 = vec![];
    for &a in &sz3 {
        for &b in &sz3 {
            if a == b {
                continue;
            }
            for k2 in [1u8, 2] {
                for third_is_b in [false, true] {
                    for k3 in [1u8, 2] {
                        for body in 0..3usize {
                            work3.push((a, b, k2, third_is_b, k3, body));
                        }
                    }
                }
            }
        }
    }
    work3.par_iter().for_each(|&((wa, ha), (wb, hb), k2, third_is_b, k3, body)| {
        let mut d = Dec::new(1);
        let feed = |d: &mut Dec, p: &Pic| -> Outcome {
            let bytes = encode_bytes(p);
            d.fed.push(bytes.clone());
            decode_bytes(&mut d.st, &bytes)
        };
        if !feed(&mut d, &coded_intra(shdr(wa, ha, 0, 0, 7, 0))).is_ok() {
            return;
        }
        let (mbw, mbh) = mb_grid(wb, hb);
        let second = Pic { hdr: shdr(wb, hb, k2, 1, 9, 0), mbs: (0..mbw * mbh).map(|i| Mb::intra_flat(60 + (i * 9 % 120) as u8)).collect() };
        match feed(&mut d, &second) {
            Outcome::Panic(pm) => {
                rep.violation(&panic_sig(&pm), format!("all-intra {wb}x{hb} picture (type {k2}) after a {wa}x{ha} reference: {pm}"), d.replay("size change through an all-intra picture"));
                return;
            }
            Outcome::Ok => post_process(&rep, &d.st, &format!("all-intra {wb}x{hb} picture (type {k2}) after a {wa}x{ha} reference"), d.replay("size change through an all-intra picture")),
            Outcome::Err(_) => {}
        }
        let (wc, hc) = if third_is_b { (wb, hb) } else { (wa, ha) };
        let (mbw, mbh) = mb_grid(wc, hc);
        let mbs: Vec<Mb> = match body {
            0 => (0..mbw * mbh).map(|_| Mb::NotCoded).collect(),
            1 => vec![],
            _ => (0..mbw * mbh).map(|i| if i % 2 == 0 { Mb::inter((1, -1)) } else { Mb::NotCoded }).collect(),
        };
        match feed(&mut d, &Pic { hdr: shdr(wc, hc, k3, 2, 9, 0), mbs }) {
            Outcome::Panic(pm) => rep.violation(&panic_sig(&pm), format!("{wc}x{hc} picture (type {k3}, body {body}) after [{wa}x{ha} I, {wb}x{hb} all-intra type {k2}]: {pm}"), d.replay("three pictures, two sizes")),
            Outcome::Ok => post_process(&rep, &d.st, &format!("{wc}x{hc} picture (type {k3}, body {body}) after [{wa}x{ha} I, {wb}x{hb} all-intra type {k2}]"), d.replay("three pictures, two sizes")),
            Outcome::Err(_) => {}
        }
    });
    n_three += work3.len() as u64;
    // every ordered triple of the colliding sizes (equal area / other shape, equal luma count / other
    // chroma count, equal chroma planes, equal macroblock grid) as three intra pictures on one
    // decoder, plus pairs whose luma counts are equal and whose *rounded-up* chroma counts differ
    // (odd dimensions); every accepted picture goes through deblocking and conversion
    {
        let mut sizes = super::crash::colliding_sizes(false);
        sizes.extend([(6u16, 6u16), (9, 4), (4, 9), (1, 15), (3, 5), (5, 3), (15, 1)]);
        let pairs: Vec<(usize, usize)> = (0..sizes.len()).flat_map(|a| (0..sizes.len()).map(move |b| (a, b))).collect();
        pairs.par_iter().for_each(|&(a, b)| {
            for c in 0..sizes.len() {
                let mut d = Dec::new(1);
                for (k, &(w, h)) in [sizes[a], sizes[b], sizes[c]].iter().enumerate() {
                    let bytes = encode_bytes(&coded_intra(shdr(w, h, 0, k as u8, 7, 0)));
                    d.fed.push(bytes.clone());
                    match decode_bytes(&mut d.st, &bytes) {
                        Outcome::Panic(pm) => {
                            rep.violation(&panic_sig(&pm), format!("intra pictures {:?}, {:?}, {:?} on one decoder, picture {k}: {pm}", sizes[a], sizes[b], sizes[c]), d.replay("three intra pictures of colliding sizes"));
                            break;
                        }
                        Outcome::Ok => post_process(&rep, &d.st, &format!("picture {k} of the intra pictures {:?}, {:?}, {:?} on one decoder", sizes[a], sizes[b], sizes[c]), d.replay("three intra pictures of colliding sizes")),
                        Outcome::Err(_) => break,
                    }
                }
            }
        });
        let n = (pairs.len() * sizes.len()) as u64;
        n_three += n;
        rep.extra("colliding_size_triples", json!(n));
        // and a predicted or disposable picture of size B directly after an intra picture of size A,
        // with nothing coded (all skipped, or a bare header) or with vectors: whatever is accepted
        // must have planes of its own size
        pairs.par_iter().for_each(|&(a, b)| {
            let (wb, hb) = sizes[b];
            let (mbw, mbh) = mb_grid(wb, hb);
            for ptype in [1u8, 2] {
                for body in 0..3usize {
                    let mut d = Dec::new(1);
                    let first = encode_bytes(&coded_intra(shdr(sizes[a].0, sizes[a].1, 0, 0, 7, 0)));
                    d.fed.push(first.clone());
                    if !decode_bytes(&mut d.st, &first).is_ok() {
                        continue;
                    }
                    let mbs: Vec<Mb> = match body {
                        0 => (0..mbw * mbh).map(|_| Mb::NotCoded).collect(),
                        1 => vec![],
                        _ => (0..mbw * mbh).map(|i| if i % 2 == 0 { Mb::inter((1, -1)) } else { Mb::NotCoded }).collect(),
                    };
                    let bytes = encode_bytes(&Pic { hdr: shdr(wb, hb, ptype, 1, 7, 0), mbs });
                    d.fed.push(bytes.clone());
                    match decode_bytes(&mut d.st, &bytes) {
                        Outcome::Panic(pm) => rep.violation(&panic_sig(&pm), format!("type-{ptype} picture {:?} (body {body}) after an intra picture {:?}: {pm}", sizes[b], sizes[a]), d.replay("predicted picture of a colliding size")),
                        Outcome::Ok => post_process(&rep, &d.st, &format!("type-{ptype} picture {:?} (body {body}) accepted after an intra picture {:?}", sizes[b], sizes[a]), d.replay("predicted picture of a colliding size")),
                        Outcome::Err(_) => {}
                    }
                }
            }
        });
        n_three += 6 * pairs.len() as u64;
    }
    rep.add_transitions(3 * n_three);
    rep.add_states(n_three);
    rep.extra("three_picture_size_histories", json!(n_three));
    rep.add_transitions(2 * n_sc);
    rep.add_states(n_sc);
    // standard mode: custom sizes (multiples of 4) and sub-QCIF
    let mut std_cases = vec![];
    for w in (4..=maxd).step_by(4) {
        for h in (4..=maxd).step_by(4) {
            std_cases.push(StdHdr::custom(w, h, false, 0, 1 + ((w + h) % 31) as u8));
        }
    }
    std_cases.push(StdHdr::baseline(1, false, 0, 7));
    std_cases.par_iter().for_each(|h| {
        let mut d = Dec::new(0);
        let pic = coded_intra(Hdr::Std(h.clone()));
        let bytes = encode_bytes(&pic);
        d.fed.push(bytes.clone());
        match decode_bytes(&mut d.st, &bytes) {
            Outcome::Ok => post_process(&rep, &d.st, "standard-mode I picture", d.replay("pipeline")),
            o => rep.violation("C13/decode-std", format!("{}: {}", describe(&pic), o.short()), d.replay("pipeline")),
        }
    });
    rep.add_transitions(std_cases.len() as u64);
    rep.add_states(std_cases.len() as u64);
    rep.set_rule(&format!(
        "every size 1..={maxd} x 1..={maxd}: I pictures at every quantizer 1..31 (fully crossed for sizes <= 20x20, pairwise beyond), plus a P and a D picture per size, plus long/thin extras, every residue mod 16 above 256/512/1024, all pairs of the boundary lattice of dimensions (powers of two and their neighbours, 3*2^k, the named formats, 65535) under the pixel cap, every height / width up to 700 (thorough 1500) next to a fixed 24, prime sizes, one picture of more than 2^24 luma samples and one of more than 2^24 chroma samples, three-picture size histories, every ordered triple of 24 colliding sizes as intra pictures on one decoder, every ordered pair of them as an intra picture followed by a predicted / disposable picture with nothing coded or with vectors, and standard-mode custom sizes: plane-size relations, then deblock(plane, row, QUANT_TO_STRENGTH[q]) on the three planes and yuv420_to_rgba on the result under catch_unwind; non-trivial = sizes with an odd dimension or fewer than 10 rows/columns"
    ));
    rep.sample(json!({"size": [1, 1], "q": 31, "kind": "I"}));
    rep.sample(json!({"size": [17, 2], "q": 12, "kind": "D", "note": "chroma planes are one row high"}));
    rep
}
