//! C04: explicit-state search of the decoder's reachable state graph under
//! {I, P, disposable P, rejected input, clean-up} x temporal references, against a two-slot model.

use super::common::*;
use super::inter::{noise_intra, shdr};
use crate::evidence::{panic_sig, Report, Tier};
use crate::refdec::{CmpStats, Planes};
use crate::refhdr::{SHdr, SSize, StdHdr};
use crate::syntax::*;
use crate::util::*;
use rayon::prelude::*;
use serde_json::json;
use std::collections::HashMap;

#[derive(Clone, Debug)]
pub enum GOp {
    Pic { label: String, pic: Pic, bytes: Vec<u8> },
    /// input that must be rejected
    Bad { label: String, bytes: Vec<u8> },
    Cleanup,
}
impl GOp {
    pub fn label(&self) -> String {
        match self {
            GOp::Pic { label, .. } | GOp::Bad { label, .. } => label.clone(),
            GOp::Cleanup => "cleanup".into(),
        }
    }
    pub fn pic(label: &str, pic: Pic) -> GOp {
        let bytes = encode_bytes(&pic);
        GOp::Pic { label: label.into(), pic, bytes }
    }
}

pub struct World {
    pub opts: u8,
    pub ops: Vec<GOp>,
}

/// What the model says the most recent picture is.
#[derive(Clone, Debug, PartialEq)]
pub struct MLast {
    pub planes: Planes,
    pub tr: u16,
    pub ptype: &'static str,
    pub q: u8,
}

pub struct Run {
    pub dec: Dec,
    pub mlast: Option<MLast>,
    pub steps: Vec<String>,
}

fn ptype_name(p: &Pic) -> &'static str {
    match p.hdr.pic_type() {
        PicType::I => "IFrame",
        PicType::P => "PFrame",
        PicType::D => "DisposablePFrame",
        PicType::Other => "other",
    }
}

impl World {
    pub fn hist_labels(&self, hist: &[usize]) -> Vec<String> {
        hist.iter().map(|i| self.ops[*i].label()).collect()
    }
    pub fn replay_value(&self, hist: &[usize], note: &str) -> serde_json::Value {
        let steps: Vec<String> = hist
            .iter()
            .map(|i| match &self.ops[*i] {
                GOp::Pic { bytes, .. } | GOp::Bad { bytes, .. } => crate::bits::hex(bytes),
                GOp::Cleanup => "cleanup".into(),
            })
            .collect();
        json!({"kind": "decode", "options": self.opts, "steps": steps, "labels": self.hist_labels(hist), "note": note})
    }

    /// Replay a history on a fresh decoder and a fresh model, checking every step.
    /// Err((step index, failure)) on the first disagreement.
    pub fn run(&self, hist: &[usize], prop: &str) -> Result<Run, (usize, Fail)> {
        let mut r = Run { dec: Dec::new(self.opts), mlast: None, steps: vec![] };
        let mut stats = CmpStats::default();
        for (i, &oi) in hist.iter().enumerate() {
            self.apply(&mut r, oi, prop, &mut stats).map_err(|f| (i, f))?;
        }
        Ok(r)
    }

    pub fn apply(&self, r: &mut Run, oi: usize, prop: &str, stats: &mut CmpStats) -> Result<(), Fail> {
        let before = last_snap(&r.dec.st);
        match &self.ops[oi] {
            GOp::Cleanup => {
                if let Err(p) = crate::evidence::catch(|| r.dec.st.cleanup_buffers()) {
                    return Err(Fail { sig: panic_sig(&p), what: format!("cleanup_buffers panicked: {p}") });
                }
                r.dec.fed.push(b"cleanup".to_vec());
                if last_snap(&r.dec.st) != before {
                    return Err(Fail { sig: format!("{prop}/cleanup-changed-last-picture"), what: "cleanup_buffers() changed what get_last_picture() reports".into() });
                }
            }
            GOp::Bad { label, bytes } => {
                r.dec.fed.push(bytes.clone());
                match decode_bytes(&mut r.dec.st, bytes) {
                    Outcome::Err(_) => {}
                    Outcome::Ok => return Err(Fail { sig: format!("{prop}/invalid-input-accepted"), what: format!("{label}: accepted") }),
                    Outcome::Panic(p) => return Err(Fail { sig: panic_sig(&p), what: format!("{label}: panic {p}") }),
                }
                if last_snap(&r.dec.st) != before {
                    return Err(Fail { sig: format!("{prop}/rejected-input-changed-last-picture"), what: format!("{label}: rejected but the most recent picture changed") });
                }
            }
            GOp::Pic { label, pic, bytes } => {
                match r.dec.step_bytes(pic, bytes, prop, stats) {
                    Err(mut f) => {
                        f.what = format!("{label}: {}", f.what);
                        // a predicted picture that differs from the model = predicted from the wrong picture
                        if f.sig.contains("/sample-") {
                            f.sig = format!("{prop}/wrong-prediction-source-{}", ptype_name(pic));
                        }
                        return Err(f);
                    }
                    Ok(None) => {
                        if last_snap(&r.dec.st) != before {
                            return Err(Fail { sig: format!("{prop}/rejected-input-changed-last-picture"), what: format!("{label}: rejected but the most recent picture changed") });
                        }
                    }
                    Ok(Some(d)) => {
                        r.mlast = Some(MLast { planes: d.planes.clone(), tr: pic.hdr.tr_full(), ptype: ptype_name(pic), q: pic.hdr.q() });
                    }
                }
            }
        }
        // the most recent picture must be the model's
        let now = last_snap(&r.dec.st);
        match (&now, &r.mlast) {
            (None, None) => {}
            (Some(s), Some(m)) => {
                if s.tr != m.tr || s.ptype != m.ptype || s.q != m.q {
                    return Err(Fail {
                        sig: format!("{prop}/last-picture-header"),
                        what: format!("after {}: last picture reports tr={} type={} q={}, expected tr={} type={} q={}", self.ops[oi].label(), s.tr, s.ptype, s.q, m.tr, m.ptype, m.q),
                    });
                }
                // planes: the step comparison already established equality for an accepted picture;
                // for rejected / clean-up steps `before == now` was checked above
            }
            _ => {
                return Err(Fail { sig: format!("{prop}/last-picture-presence"), what: format!("after {}: get_last_picture() is {:?}, model {:?}", self.ops[oi].label(), now.is_some(), r.mlast.is_some()) })
            }
        }
        r.steps.push(self.ops[oi].label());
        Ok(())
    }
}

pub struct Node {
    pub hist: Vec<usize>,
    pub last_ne_ref: bool,
}

pub struct Explored {
    pub nodes: Vec<Node>,
    pub transitions: u64,
    pub max_depth: usize,
    pub fixpoint: bool,
}

/// Level-synchronous BFS; `max_depth` = None runs to a fixpoint.
pub fn explore(world: &World, rep: &Report, prop: &str, max_depth: Option<usize>, depth_in_key: bool) -> Explored {
    type K = (StateKey, usize);
    let mut seen: HashMap<K, usize> = HashMap::new();
    let mut nodes: Vec<Node> = vec![];
    let r0 = world.run(&[], prop).ok().expect("empty history");
    seen.insert((state_key(&r0.dec.st), 0), 0);
    nodes.push(Node { hist: vec![], last_ne_ref: false });
    let mut frontier: Vec<usize> = vec![0];
    let mut transitions = 0u64;
    let mut depth = 0usize;
    let mut fixpoint = true;
    while !frontier.is_empty() {
        if let Some(md) = max_depth {
            if depth >= md {
                fixpoint = false;
                break;
            }
        }
        // safety cap: a closed alphabet reaches its fixpoint within a few levels and a few thousand
        // states; if the decoder's state keeps changing (e.g. a per-picture counter in the key) the
        // search is cut here and reported as not having reached a fixpoint
        if nodes.len() > 60_000 || depth >= 12 || frontier.len() * world.ops.len() > 400_000 {
            fixpoint = false;
            println!("NOTE: state graph did not close within 12 levels / 60000 states; search cut at depth {depth} with {} states", nodes.len());
            break;
        }
        // expand every frontier node with every operation, in parallel, deterministic order
        let work: Vec<(usize, usize)> = frontier.iter().flat_map(|&n| (0..world.ops.len()).map(move |o| (n, o))).collect();
        let results: Vec<Option<(K, Vec<usize>, bool)>> = work
            .par_iter()
            .map(|&(n, o)| {
                let mut h = nodes[n].hist.clone();
                h.push(o);
                match world.run(&h, prop) {
                    Err((step, f)) => {
                        if step + 1 == h.len() {
                            rep.violation(&f.sig, format!("history {:?}: {}", world.hist_labels(&h), f.what), world.replay_value(&h, &f.what));
                        }
                        None
                    }
                    Ok(r) => {
                        let lne = match (&r.mlast, &r.dec.mref) {
                            (Some(l), Some(rf)) => l.planes != *rf,
                            _ => false,
                        };
                        Some(((state_key(&r.dec.st), if depth_in_key { h.len() } else { 0 }), h, lne))
                    }
                }
            })
            .collect();
        transitions += work.len() as u64;
        let mut next = vec![];
        for res in results.into_iter().flatten() {
            let (k, h, lne) = res;
            if !seen.contains_key(&k) {
                seen.insert(k, nodes.len());
                next.push(nodes.len());
                nodes.push(Node { hist: h, last_ne_ref: lne });
            }
        }
        frontier = next;
        depth += 1;
    }
    Explored { nodes, transitions, max_depth: depth, fixpoint }
}

/// Bounded history search without state merging: every sequence of `depth` operations is run on a
/// fresh decoder and every step compared with the model. Covers state the key cannot see (a field
/// added to the decoder, a static, a thread-local) for histories up to that length.
pub fn explore_histories(world: &World, rep: &Report, prop: &str, depth: usize) -> u64 {
    let n = world.ops.len();
    let total = n.pow(depth as u32);
    let bad = std::sync::atomic::AtomicU64::new(0);
    (0..total).into_par_iter().for_each(|code| {
        let mut h = Vec::with_capacity(depth);
        let mut c = code;
        for _ in 0..depth {
            h.push(c % n);
            c /= n;
        }
        if let Err((step, f)) = world.run(&h, prop) {
            // report a failure once, at the shortest history that shows it (its last step)
            if step + 1 == h.len() || bad.fetch_add(1, std::sync::atomic::Ordering::Relaxed) == 0 {
                let hh = &h[..=step];
                rep.violation(&format!("{}[history]", f.sig), format!("history {:?}: {}", world.hist_labels(hh), f.what), world.replay_value(hh, &f.what));
            }
        }
    });
    (total * depth) as u64
}

/// Sizes of the hooked objects on the tree the state keys were written for. When they differ the
/// object has gained (or lost) state; the searches still run, and say so.
pub const BASELINE_STATE_SIZE: usize = 64;
pub fn note_object_sizes(rep: &Report) {
    let now = h263_rs::H263State::verif_object_size();
    rep.extra("decoder_object_size", json!(now));
    if BASELINE_STATE_SIZE != 0 && now != BASELINE_STATE_SIZE {
        println!("NOTE: H263State is {now} bytes, {BASELINE_STATE_SIZE} on the tree the state key was written for: the decoder has state the key may not contain; states that differ only there are merged by the graph searches, the bounded history search (no merging) still covers them up to its depth");
        rep.extra("decoder_object_size_differs_from_baseline", json!(true));
    }
}

pub const DC: [u8; 3] = [40, 120, 200];
pub const TRS: [u8; 3] = [0, 1, 255];

fn flat_mb(c: usize) -> Mb {
    Mb::intra_flat(DC[c])
}

/// The closed alphabet of 3.4: pictures are 32x16, contents are flat, so the image space is finite.
pub fn closed_world(sorenson: bool, trs: &[u8], contents: usize) -> World {
    closed_world_opt(sorenson, trs, contents, true)
}

pub fn closed_world_opt(sorenson: bool, trs: &[u8], contents: usize, early_end: bool) -> World {
    let hdr = |ptype: u8, tr: u8| -> Hdr {
        if sorenson {
            Hdr::S(SHdr { version: 0, tr, size: SSize::auto(32, 16), ptype, deblock: false, q: 5, pei: vec![] })
        } else {
            Hdr::Std(StdHdr::custom(32, 16, ptype != 0, tr, 5))
        }
    };
    let mut ops = vec![];
    for &tr in trs {
        for c in 0..contents {
            ops.push(GOp::pic(&format!("I(tr={tr},{c})"), Pic { hdr: hdr(0, tr), mbs: vec![flat_mb(c), flat_mb(c)] }));
            ops.push(GOp::pic(&format!("Pa(tr={tr},{c})"), Pic { hdr: hdr(1, tr), mbs: vec![flat_mb(c), Mb::NotCoded] }));
            ops.push(GOp::pic(&format!("Pb(tr={tr},{c})"), Pic { hdr: hdr(1, tr), mbs: vec![Mb::NotCoded, flat_mb(c)] }));
            if sorenson {
                ops.push(GOp::pic(&format!("Da(tr={tr},{c})"), Pic { hdr: hdr(2, tr), mbs: vec![flat_mb(c), Mb::NotCoded] }));
                ops.push(GOp::pic(&format!("Db(tr={tr},{c})"), Pic { hdr: hdr(2, tr), mbs: vec![Mb::NotCoded, flat_mb(c)] }));
            }
        }
    }
    // pictures that end early: header only (ending inside a byte, and - with six supplemental bytes
    // in a Sorenson header - exactly on a byte boundary) and after the first macroblock; everything
    // missing is taken from the reference picture
    if early_end {
        let tr = trs[0];
        let with_pei = |h: Hdr, n: usize| -> Hdr {
            match h {
                Hdr::S(mut s) => {
                    s.pei = (0..n).map(|k| 0x40 + k as u8).collect();
                    Hdr::S(s)
                }
                Hdr::Std(mut s) => {
                    s.pei = (0..n).map(|k| 0x40 + k as u8).collect();
                    Hdr::Std(s)
                }
            }
        };
        for n in [0usize, 6] {
            ops.push(GOp::pic(&format!("P-header-only(tr={tr},pei={n})"), Pic { hdr: with_pei(hdr(1, tr), n), mbs: vec![] }));
            if sorenson {
                ops.push(GOp::pic(&format!("D-header-only(tr={tr},pei={n})"), Pic { hdr: with_pei(hdr(2, tr), n), mbs: vec![] }));
            }
        }
        ops.push(GOp::pic(&format!("P-first-macroblock-only(tr={tr})"), Pic { hdr: hdr(1, tr), mbs: vec![flat_mb(contents - 1)] }));
        // intra pictures that end early, too: with a reference they are completed from it, without one
        // they are refused - either way the books must follow what the call returned
        ops.push(GOp::pic(&format!("I-header-only(tr={tr})"), Pic { hdr: hdr(0, tr), mbs: vec![] }));
        ops.push(GOp::pic(&format!("I-first-macroblock-only(tr={tr})"), Pic { hdr: hdr(0, tr), mbs: vec![flat_mb(contents - 1)] }));
    }
    ops.extend(bad_inputs(sorenson));
    ops.push(GOp::Cleanup);
    World { opts: if sorenson { 1 } else { 0 }, ops }
}

/// Standard mode with a custom picture clock: temporal references are ten bits wide (TR + ETR).
/// The alphabet has values that agree in their low eight bits and values that differ only there.
pub fn closed_world_etr() -> World {
    let hdr = |inter: bool, tr: u16| -> Hdr {
        let mut h = StdHdr::custom(32, 16, inter, (tr & 255) as u8, 5);
        let p = h.plus.as_mut().unwrap();
        p.opp.custom_pcf = true;
        p.cpcfc = 0x8B;
        p.etr = (tr >> 8) as u8;
        Hdr::Std(h)
    };
    let mut ops = vec![];
    for &tr in &[5u16, 261, 773, 6, 1023] {
        for c in 0..2usize {
            ops.push(GOp::pic(&format!("I(tr={tr},{c})"), Pic { hdr: hdr(false, tr), mbs: vec![flat_mb(c), flat_mb(c)] }));
            ops.push(GOp::pic(&format!("Pa(tr={tr},{c})"), Pic { hdr: hdr(true, tr), mbs: vec![flat_mb(c), Mb::NotCoded] }));
            ops.push(GOp::pic(&format!("Pb(tr={tr},{c})"), Pic { hdr: hdr(true, tr), mbs: vec![Mb::NotCoded, flat_mb(c)] }));
        }
    }
    ops.extend(bad_inputs(false));
    ops.push(GOp::Cleanup);
    World { opts: 0, ops }
}

/// Size-change world: intra pictures of several shapes (including transposes with identical plane
/// sizes), predicted pictures of each shape (valid only over a reference of the same shape).
pub fn size_world() -> World {
    let sizes: [(u16, u16); 5] = [(16, 32), (32, 16), (16, 16), (16, 48), (48, 16)];
    let mut ops = vec![];
    for (si, &(w, h)) in sizes.iter().enumerate() {
        let n = mb_grid(w, h).0 * mb_grid(w, h).1;
        for c in 0..2usize {
            ops.push(GOp::pic(&format!("I({w}x{h},{c})"), Pic { hdr: shdr(w, h, 0, si as u8, 5, 0), mbs: (0..n).map(|_| flat_mb(c)).collect() }));
        }
        let mut mbs: Vec<Mb> = (0..n).map(|_| Mb::NotCoded).collect();
        mbs[0] = flat_mb(2);
        ops.push(GOp::pic(&format!("P({w}x{h})"), Pic { hdr: shdr(w, h, 1, 10 + si as u8, 5, 0), mbs: mbs.clone() }));
        ops.push(GOp::pic(&format!("D({w}x{h})"), Pic { hdr: shdr(w, h, 2, 20 + si as u8, 5, 0), mbs }));
        // nothing coded at all: every macroblock skipped, and a header with no macroblock data
        ops.push(GOp::pic(&format!("P-skip({w}x{h})"), Pic { hdr: shdr(w, h, 1, 30 + si as u8, 5, 0), mbs: (0..n).map(|_| Mb::NotCoded).collect() }));
        ops.push(GOp::pic(&format!("D-empty({w}x{h})"), Pic { hdr: shdr(w, h, 2, 40 + si as u8, 5, 0), mbs: vec![] }));
        // pictures of this shape that are rejected late - in their last macroblock, after a valid
        // header of a size that may differ from the stored pictures': a forbidden INTRADC in an intra
        // picture, an invalid MCBPC in a predicted one. Whatever the decoder prepared for the new
        // size must not cost it the reference
        let mut mbs: Vec<Mb> = (0..n - 1).map(|_| flat_mb(1)).collect();
        mbs.push(Mb::Raw(vec![true, false, false, true, true, false, false, false, false, false, false, false, false]));
        ops.push(GOp::Bad { label: format!("Bad-I({w}x{h},intradc-0-in-last-mb)"), bytes: encode_bytes(&Pic { hdr: shdr(w, h, 0, 50 + si as u8, 5, 0), mbs }) });
        let mut mbs: Vec<Mb> = (0..n - 1).map(|_| flat_mb(2)).collect();
        mbs.push(Mb::Raw(vec![false; 14]));
        let mut b = encode_bytes(&Pic { hdr: shdr(w, h, 1, 60 + si as u8, 5, 0), mbs });
        b.extend_from_slice(&[0, 0]);
        ops.push(GOp::Bad { label: format!("Bad-P({w}x{h},invalid-mcbpc-in-last-mb)"), bytes: b });
    }
    ops.push(GOp::Cleanup);
    World { opts: 1, ops }
}

/// Closed world with four contents (so that last, reference and two stale pictures can all differ).
pub fn closed_world4() -> World {
    let dc4: [u8; 4] = [40, 100, 160, 220];
    let hdr = |ptype: u8, tr: u8| Hdr::S(SHdr { version: 1, tr, size: SSize::auto(32, 16), ptype, deblock: false, q: 3, pei: vec![] });
    let mut ops = vec![];
    for &tr in &[0u8, 1, 255] {
        for c in 0..4usize {
            let m = || Mb::intra_flat(dc4[c]);
            ops.push(GOp::pic(&format!("I(tr={tr},{c})"), Pic { hdr: hdr(0, tr), mbs: vec![m(), m()] }));
            ops.push(GOp::pic(&format!("Pa(tr={tr},{c})"), Pic { hdr: hdr(1, tr), mbs: vec![m(), Mb::NotCoded] }));
            ops.push(GOp::pic(&format!("Pb(tr={tr},{c})"), Pic { hdr: hdr(1, tr), mbs: vec![Mb::NotCoded, m()] }));
            ops.push(GOp::pic(&format!("Da(tr={tr},{c})"), Pic { hdr: hdr(2, tr), mbs: vec![m(), Mb::NotCoded] }));
            ops.push(GOp::pic(&format!("Db(tr={tr},{c})"), Pic { hdr: hdr(2, tr), mbs: vec![Mb::NotCoded, m()] }));
        }
    }
    ops.extend(bad_inputs(true));
    ops.push(GOp::Cleanup);
    World { opts: 1, ops }
}

pub fn bad_inputs(sorenson: bool) -> Vec<GOp> {
    let mut v = vec![];
    if sorenson {
        // reserved size code
        let h = SHdr { version: 0, tr: 7, size: SSize::Code(7), ptype: 0, deblock: true, q: 5, pei: vec![] };
        let mut w = crate::bits::BitWriter::new();
        h.put(&mut w);
        w.put(0xFFFF, 16);
        v.push(GOp::Bad { label: "Bad(reserved-size)".into(), bytes: w.bytes });
        // forbidden INTRADC in the second macroblock of an intra picture (after one good macroblock)
        let p = Pic { hdr: shdr(32, 16, 0, 9, 5, 0), mbs: vec![flat_mb(1), Mb::Raw(vec![true, false, false, true, true, false, false, false, false, false, false, false, false])] };
        v.push(GOp::Bad { label: "Bad(intradc-0-in-mb1)".into(), bytes: encode_bytes(&p) });
        // a predicted picture whose second macroblock has an invalid MCBPC (nine zero bits after COD=0)
        let p = Pic { hdr: shdr(32, 16, 1, 9, 5, 0), mbs: vec![flat_mb(2), Mb::Raw(vec![false; 14])] };
        let mut b = encode_bytes(&p);
        b.extend_from_slice(&[0, 0]);
        v.push(GOp::Bad { label: "Bad(P-invalid-mcbpc)".into(), bytes: b });
    } else {
        let mut h = StdHdr::custom(32, 16, false, 7, 5);
        h.hi2 = 3;
        let mut w = crate::bits::BitWriter::new();
        h.put(&mut w, false, 0);
        w.put(0xFFFF, 16);
        v.push(GOp::Bad { label: "Bad(ptype-marker)".into(), bytes: w.bytes });
        let p = Pic { hdr: Hdr::Std(StdHdr::custom(32, 16, false, 9, 5)), mbs: vec![flat_mb(1), Mb::Raw(vec![true, false, false, true, true, false, false, false, false, false, false, false, false])] };
        v.push(GOp::Bad { label: "Bad(intradc-0-in-mb1)".into(), bytes: encode_bytes(&p) });
    }
    // truncated header
    let p = Pic { hdr: if sorenson { shdr(32, 16, 0, 3, 5, 0) } else { Hdr::Std(StdHdr::custom(32, 16, false, 3, 5)) }, mbs: vec![] };
    v.push(GOp::Bad { label: "Bad(header-cut)".into(), bytes: encode_bytes(&p)[..4].to_vec() });
    v
}

/// Depth-bounded world with real motion over noise references.
pub fn motion_world(seed: u64) -> World {
    let mut ops = vec![];
    for tr in [0u8, 1] {
        for (n, s) in [("a", 1u64), ("b", 2)] {
            ops.push(GOp::pic(&format!("I(tr={tr},noise-{n})"), {
                let mut p = noise_intra(shdr(32, 32, 0, tr, 6, 0), seed ^ s);
                if let Hdr::S(h) = &mut p.hdr {
                    h.tr = tr;
                }
                p
            }));
        }
        for (n, mv, kind) in [("m1", (5i8, -3i8), 1u8), ("m2", (-8, 7), 1), ("m1", (5, -3), 2), ("m2", (-8, 7), 2)] {
            let mut mbs = vec![Mb::inter(mv), Mb::NotCoded, Mb::inter((mv.1, mv.0)), Mb::NotCoded];
            if let Mb::Coded { blocks, .. } = &mut mbs[0] {
                blocks[0].ev = vec![ev_auto(true, 2, 3, false)];
            }
            ops.push(GOp::pic(&format!("{}(tr={tr},{n})", if kind == 1 { "P" } else { "D" }), Pic { hdr: shdr(32, 32, kind, tr, 6, 0), mbs }));
        }
    }
    let p = Pic { hdr: shdr(32, 32, 1, 9, 5, 0), mbs: vec![Mb::inter((1, 1)), Mb::Raw(vec![false; 14])] };
    let mut b = encode_bytes(&p);
    b.extend_from_slice(&[0, 0]);
    ops.push(GOp::Bad { label: "Bad(P-invalid-mcbpc)".into(), bytes: b });
    ops.push(GOp::Cleanup);
    World { opts: 1, ops }
}

pub fn run(tier: Tier) -> Report {
    let rep = Report::new("C04", "refgraph", tier);
    let mut total_states = 0u64;
    let mut summary = vec![];
    let mut do_world = |name: &str, w: &World, depth: Option<usize>, dk: bool| {
        let ex = explore(w, &rep, "C04", depth, dk);
        total_states += ex.nodes.len() as u64;
        rep.add_states(ex.nodes.len() as u64);
        rep.add_transitions(ex.transitions);
        let lne = ex.nodes.iter().filter(|n| n.last_ne_ref).count() as u64;
        rep.add_nontrivial(lne);
        summary.push(json!({"graph": name, "operations": w.ops.len(), "states": ex.nodes.len(), "transitions": ex.transitions, "max_depth": ex.max_depth, "fixpoint": ex.fixpoint, "states_last_differs_from_reference": lne}));
        if let Some(n) = ex.nodes.iter().find(|n| n.last_ne_ref && n.hist.len() >= 2) {
            rep.sample(json!({"graph": name, "history": w.hist_labels(&n.hist)}));
        }
        if !ex.fixpoint {
            rep.not_exhaustive();
        }
    };
    do_world("sorenson-closed", &closed_world(true, &TRS, 3), None, false);
    do_world("standard-closed", &closed_world(false, &TRS, 3), None, false);
    do_world("standard-10-bit-temporal-references", &closed_world_etr(), None, false);
    do_world("sorenson-size-changes", &size_world(), if tier.thorough() { None } else { Some(4) }, false);
    if tier.thorough() {
        do_world("sorenson-closed-5tr", &closed_world(true, &[0, 1, 2, 254, 255], 3), None, false);
        do_world("standard-closed-5tr", &closed_world(false, &[0, 1, 2, 254, 255], 3), None, false);
        do_world("sorenson-closed-4-contents", &closed_world4(), None, false);
        do_world("sorenson-motion-depth6", &motion_world(crate::evidence::seed()), Some(6), true);
    } else {
        do_world("sorenson-motion-depth3", &motion_world(crate::evidence::seed()), Some(3), true);
    }
    // bounded history search without state merging (hidden state): every history of 4 (thorough 5)
    // operations over a reduced closed alphabet, both modes
    {
        note_object_sizes(&rep);
        let depth = if tier.thorough() { 5 } else { 4 };
        let mut n = 0u64;
        for sorenson in [true, false] {
            let w = closed_world_opt(sorenson, &[0, 1], 2, false);
            n += explore_histories(&w, &rep, "C04", depth);
        }
        // one temporal reference, one content, with the early-ending pictures: one level deeper
        let w = closed_world_opt(true, &[7], 1, true);
        n += explore_histories(&w, &rep, "C04", depth + 1);
        rep.add_transitions(n);
        rep.add_states(n / depth as u64);
        rep.extra("unmerged_history_steps", json!(n));
    }
    // long single history: temporal references running through the 8-bit wrap several times, with
    // disposable pictures, rejected inputs and clean-ups interleaved; the store must stay bounded
    {
        let n = if tier.thorough() { 3000 } else { 700 };
        let mut d = Dec::new(1);
        let mut stats = CmpStats::default();
        let mut mlast: Option<(u16, &'static str)>;
        let w = closed_world(true, &[0], 1);
        let bad: Vec<&GOp> = w.ops.iter().filter(|o| matches!(o, GOp::Bad { .. })).collect();
        for i in 0..n {
            let tr = (i % 256) as u8;
            let kind = if i == 0 || i % 97 == 0 { 0u8 } else if i % 3 == 1 { 2 } else { 1 };
            let c = (i / 7) % 3;
            let mbs = if kind == 0 { vec![flat_mb(c), flat_mb(c)] } else if i % 2 == 0 { vec![flat_mb(c), Mb::NotCoded] } else { vec![Mb::NotCoded, flat_mb(c)] };
            let pic = Pic { hdr: shdr(32, 16, kind, tr, 5, 0), mbs };
            if i % 13 == 5 {
                let b = match bad[i % bad.len()] {
                    GOp::Bad { bytes, .. } => bytes.clone(),
                    _ => vec![],
                };
                let _ = decode_bytes(&mut d.st, &b);
            }
            if i % 29 == 11 {
                d.st.cleanup_buffers();
            }
            match d.step(&pic, "C04", &mut stats) {
                Err(f) => {
                    rep.violation(&format!("{}[long-history]", f.sig), format!("picture {i} of a long history: {}", f.what), json!({"kind": "long-history", "index": i}));
                    break;
                }
                Ok(None) => {
                    rep.violation("C04/long-history-rejected", format!("picture {i} (type {kind}, tr {tr}) of a long history rejected"), json!({"kind": "long-history", "index": i}));
                    break;
                }
                Ok(Some(_)) => mlast = Some((tr as u16, ["IFrame", "PFrame", "DisposablePFrame"][kind as usize])),
            }
            let s = last_snap(&d.st).unwrap();
            if Some((s.tr, s.ptype.as_str())) != mlast.map(|m| (m.0, m.1)) {
                rep.violation("C04/long-history-last-picture", format!("after picture {i}: last picture reports tr={} type={}", s.tr, s.ptype), json!({"kind": "long-history", "index": i}));
                break;
            }
            let stored = d.st.verif_state().4.len();
            if stored > 2 {
                rep.violation("C04/picture-store-grows", format!("after picture {i} the decoder holds {stored} pictures (only the most recent and the reference are needed)"), json!({"kind": "long-history", "index": i}));
                break;
            }
        }
        rep.add_transitions(n as u64);
        rep.add_states(n as u64);
        rep.extra("long_history_pictures", json!(n));
    }
    // one reference kept alive while more than 2^16 disposable pictures are decoded: any counter or
    // key of 8 or 16 bits that is advanced per picture wraps during this run
    {
        let n = if tier.thorough() { 140_000 } else { 70_000 };
        let mut d = Dec::new(1);
        let mut stats = CmpStats::default();
        let i0 = Pic { hdr: shdr(32, 16, 0, 0, 5, 0), mbs: vec![flat_mb(0), flat_mb(1)] };
        let mut ok = d.step(&i0, "C04", &mut stats).is_ok();
        // the coded macroblock always carries a content the reference does not have, so a disposable
        // picture that replaced the reference is visible in the very next picture
        let pics: Vec<(Pic, Vec<u8>)> = (0..6usize)
            .map(|k| {
                let mbs = if k % 2 == 0 { vec![flat_mb(2), Mb::NotCoded] } else { vec![Mb::NotCoded, flat_mb(2)] };
                let p = Pic { hdr: shdr(32, 16, 2, (k * 41) as u8, 5, 0), mbs };
                let b = encode_bytes(&p);
                (p, b)
            })
            .collect();
        let mut i = 0usize;
        while ok && i < n {
            let (p, b) = &pics[i % pics.len()];
            match d.step_bytes(p, b, "C04", &mut stats) {
                Ok(Some(_)) => {}
                Ok(None) => {
                    rep.violation("C04/long-disposable-run-rejected", format!("disposable picture {i} of a long run over one reference rejected"), json!({"kind": "long-disposable-run", "index": i}));
                    ok = false;
                }
                Err(f) => {
                    rep.violation(&format!("{}[long-disposable-run]", f.sig.replace("sample-disposable", "wrong-prediction-source")), format!("disposable picture {i} of a long run over one reference: {}", f.what), json!({"kind": "long-disposable-run", "index": i}));
                    ok = false;
                }
            }
            d.fed.clear();
            i += 1;
        }
        rep.add_transitions(i as u64);
        rep.add_states(i as u64);
        rep.extra("long_disposable_run_pictures", json!(i));
    }
    rep.extra("graphs", json!(summary));
    // the motion graph is depth-bounded by construction; the closed graphs reach a fixpoint
    *rep.exhaustive.lock().unwrap() = true;
    rep.set_rule(
        "breadth-first search over operation histories on one H263State, de-duplicated on the decoder's entire state (hooked scalars + hash of every stored picture); closed graphs (flat contents, 32x16): every operation of the alphabet {I, Pa, Pb, Da, Db} x TR {0,1,255} x 3 contents + rejected inputs + cleanup from every reachable state, to a fixpoint; motion graph: depth-bounded with the depth in the key; size-change graph: intra/predicted/disposable pictures of five shapes incl. transposes (prediction across shapes must be rejected) + an intra and a predicted picture of every shape rejected in its last macroblock; every transition compared with a two-slot model (last, reference) and the reference decoder; non-trivial = states in which the most recent picture is not the reference",
    );
    rep.assume("state key read through the cfg-gated hook (exhaustive destructuring of H263State)");
    let _ = total_states;
    rep
}
