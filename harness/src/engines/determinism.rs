//! C17: decoding is deterministic and instances are independent: all call-level interleavings of
//! several instances, on one thread and on one thread per instance (token passing).

use super::inter::{fix_last_flags, mbs_for, noise_intra, shdr, Spec};
use crate::bits::hex;
use crate::evidence::{Report, Tier};
use crate::refhdr::StdHdr;
use crate::syntax::*;
use crate::util::*;
use h263_rs::H263State;
use rayon::prelude::*;
use serde_json::json;
use std::sync::mpsc;
use std::sync::Arc;

#[derive(Clone)]
pub struct Script {
    pub name: &'static str,
    pub opts: u8,
    pub calls: Vec<Arc<Vec<u8>>>,
}

type Obs = (String, Option<u64>);

fn observe(st: &H263State, o: &Outcome) -> Obs {
    (o.short(), last_snap(st).map(|s| s.hash()))
}

fn bad_mid_picture(std: bool) -> Vec<u8> {
    // a bright first macroblock with AC data, then a forbidden INTRADC in the second one
    let hdr = if std { Hdr::Std(StdHdr::custom(32, 16, false, 7, 4)) } else { shdr(32, 16, 0, 7, 4, 0) };
    let mut blocks: [Blk; 6] = std::array::from_fn(|_| Blk::dc(250));
    for b in blocks.iter_mut() {
        b.ev = vec![ev_auto(false, 0, 9, false), ev_auto(true, 2, -7, false)];
    }
    // second macroblock: INTRA, no coded luma blocks; three bright DC-only blocks are stored, the fourth
    // block carries the forbidden INTRADC code 0
    let mut raw = vec![true, false, false, true, true];
    for _ in 0..3 {
        raw.extend([true, true, true, true, true, false, true, false]);
    }
    raw.extend([false; 12]);
    let p = Pic { hdr, mbs: vec![Mb::Coded { kind: Kind::Intra, dquant: 0, mvd: vec![], blocks }, Mb::Raw(raw)] };
    encode_bytes(&p)
}

/// encode a standard-mode picture for a decoder with USE_SCALABILITY_MODE (ELNUM/RLNUM present)
fn encode_scal(p: &Pic) -> Vec<u8> {
    let mut w = crate::bits::BitWriter::new();
    match &p.hdr {
        Hdr::Std(h) => h.put(&mut w, true, 0),
        Hdr::S(h) => h.put(&mut w),
    }
    let is_i = p.hdr.pic_type() == PicType::I;
    for mb in &p.mbs {
        put_mb(&mut w, is_i, mb);
    }
    w.bytes
}

pub fn scripts(seed: u64) -> Vec<Script> {
    let a = |v: Vec<u8>| Arc::new(v);
    let p_pic = |hdr: Hdr, specs: &[Spec], mbw: usize| -> Vec<u8> {
        let v1 = hdr.v1();
        let mut p = Pic { hdr, mbs: mbs_for(specs, mbw, v1, true) };
        fix_last_flags(&mut p);
        encode_bytes(&p)
    };
    let all_nc = |hdr: Hdr| encode_bytes(&Pic { hdr, mbs: vec![Mb::NotCoded, Mb::NotCoded] });
    vec![
        Script {
            name: "sorenson: I, P, D",
            opts: 1,
            calls: vec![
                a(encode_bytes(&noise_intra(shdr(32, 16, 0, 0, 6, 0), seed ^ 1))),
                a(p_pic(shdr(32, 16, 1, 1, 6, 0), &[Spec::Inter((3, -2), false), Spec::NotCoded], 2)),
                a(p_pic(shdr(32, 16, 2, 2, 6, 0), &[Spec::NotCoded, Spec::Inter4V([(1, 1), (-2, 3), (4, -4), (0, 7)], true)], 2)),
            ],
        },
        Script {
            name: "sorenson: I, rejected mid-picture, P all-not-coded",
            opts: 1,
            calls: vec![a(encode_bytes(&noise_intra(shdr(32, 16, 0, 0, 9, 0), seed ^ 2))), a(bad_mid_picture(false)), a(all_nc(shdr(32, 16, 1, 5, 9, 0)))],
        },
        Script {
            name: "sorenson v1: P without reference, I, P",
            opts: 3,
            calls: vec![
                a(all_nc(shdr(32, 16, 1, 9, 3, 1))),
                a(encode_bytes(&noise_intra(shdr(32, 16, 0, 10, 3, 1), seed ^ 3))),
                a(p_pic(shdr(32, 16, 1, 11, 3, 1), &[Spec::Intra, Spec::Inter((-31, 30), true)], 2)),
            ],
        },
        Script {
            name: "standard: I, P, invalid MVD",
            opts: 0,
            calls: vec![
                a(encode_bytes(&noise_intra(Hdr::Std(StdHdr::custom(32, 16, false, 0, 5)), seed ^ 4))),
                // (vectors whose predictor + differential leaves the base range and wraps)
                a(encode_bytes(&Pic { hdr: Hdr::Std(StdHdr::custom(32, 16, true, 1, 5)), mbs: vec![Mb::inter((30, -31)), Mb::inter((20, -10))] })),
                a({
                    let p = Pic { hdr: Hdr::Std(StdHdr::custom(32, 16, true, 2, 5)), mbs: vec![Mb::inter((1, 1)), Mb::Raw(vec![false, true, true, true, false, false, false, false, false, false, false, false, false, false, false, false, false, false])] };
                    encode_bytes(&p)
                }),
            ],
        },
        Script {
            name: "standard + scalability option: rejected mid-picture, I, P all-not-coded",
            opts: 2,
            calls: vec![
                a(encode_scal(&{
                    let mut p = noise_intra(Hdr::Std(StdHdr::custom(32, 16, false, 3, 8)), seed ^ 5);
                    p.mbs[1] = Mb::Raw(vec![true, false, false, true, true, false, false, false, false, false, false, false, false]);
                    p
                })),
                a(encode_scal(&noise_intra(Hdr::Std(StdHdr::custom(32, 16, false, 3, 8)), seed ^ 5))),
                a(encode_scal(&Pic { hdr: Hdr::Std(StdHdr::custom(32, 16, true, 4, 8)), mbs: vec![Mb::NotCoded; 2] })),
            ],
        },
        Script {
            name: "sorenson: I, I cut after its first macroblock (rest concealed from the reference), P",
            opts: 1,
            calls: vec![
                a(encode_bytes(&noise_intra(shdr(32, 16, 0, 0, 7, 0), seed ^ 8))),
                a({
                    let mut p = noise_intra(shdr(32, 16, 0, 1, 7, 0), seed ^ 9);
                    p.mbs.truncate(1);
                    encode_bytes(&p)
                }),
                a(p_pic(shdr(32, 16, 1, 2, 7, 0), &[Spec::NotCoded, Spec::Inter((2, 2), false)], 2)),
            ],
        },
        Script {
            name: "sorenson: I tr=7, disposable tr=7 (same temporal reference), P all-not-coded",
            opts: 1,
            calls: vec![
                a(encode_bytes(&noise_intra(shdr(32, 16, 0, 7, 6, 0), seed ^ 10))),
                a(p_pic(shdr(32, 16, 2, 7, 6, 0), &[Spec::Intra, Spec::Inter((4, -4), false)], 2)),
                a(all_nc(shdr(32, 16, 1, 8, 6, 0))),
            ],
        },
        Script {
            name: "standard, custom picture clock (ten-bit temporal references): I tr=5, P tr=261, P tr=773, P tr=774",
            opts: 0,
            calls: {
                let hd = |inter: bool, tr: u16| -> Hdr {
                    let mut h = StdHdr::custom(32, 16, inter, (tr & 255) as u8, 5);
                    let p = h.plus.as_mut().unwrap();
                    p.opp.custom_pcf = true;
                    p.cpcfc = 0x8B;
                    p.etr = (tr >> 8) as u8;
                    Hdr::Std(h)
                };
                vec![
                    a(encode_bytes(&noise_intra(hd(false, 5), seed ^ 13))),
                    a(p_pic(hd(true, 261), &[Spec::Intra, Spec::Inter((2, -3), false)], 2)),
                    a(p_pic(hd(true, 773), &[Spec::Inter((-4, 1), false), Spec::NotCoded], 2)),
                    a(all_nc(hd(true, 774))),
                ]
            },
        },
        Script {
            name: "sorenson: I 32x16, disposable all-intra 16x16 (another size), P 32x16",
            opts: 1,
            calls: vec![
                a(encode_bytes(&noise_intra(shdr(32, 16, 0, 0, 6, 0), seed ^ 14))),
                a(encode_bytes(&Pic { hdr: shdr(16, 16, 2, 1, 6, 0), mbs: vec![Mb::intra_flat(200)] })),
                a(p_pic(shdr(32, 16, 1, 2, 6, 0), &[Spec::Inter((2, 1), false), Spec::NotCoded], 2)),
            ],
        },
        Script {
            name: "sorenson 24x19 (odd height): I, P with intra macroblocks in the clipped bottom row, D",
            opts: 1,
            calls: vec![
                a(encode_bytes(&noise_intra(shdr(24, 19, 0, 0, 6, 0), seed ^ 11))),
                a(p_pic(shdr(24, 19, 1, 1, 6, 0), &[Spec::Inter((3, -2), false), Spec::NotCoded, Spec::Intra, Spec::Intra], 2)),
                a(p_pic(shdr(24, 19, 2, 2, 6, 0), &[Spec::Intra, Spec::Inter4V([(1, 1), (-2, 3), (4, -4), (0, 7)], true), Spec::NotCoded, Spec::Intra], 2)),
            ],
        },
        Script {
            name: "sorenson v1 19x24 (odd width): I, P with intra macroblocks in the clipped right column, P",
            opts: 1,
            calls: vec![
                a(encode_bytes(&noise_intra(shdr(19, 24, 0, 0, 8, 1), seed ^ 12))),
                a(p_pic(shdr(19, 24, 1, 1, 8, 1), &[Spec::NotCoded, Spec::Intra, Spec::Inter((-5, 6), true), Spec::Intra], 2)),
                a(p_pic(shdr(19, 24, 1, 2, 8, 1), &[Spec::Intra, Spec::Intra, Spec::Intra, Spec::NotCoded], 2)),
            ],
        },
        Script {
            // the options carried over from the first header decide how the second picture's vectors are
            // read: the masks that select the carried-over bits are lazily initialised process-wide state
            name: "standard: I sub-QCIF with unrestricted vectors switched on in OPPTYPE, P with PLUSPTYPE and the extended range (UUI = 1), P with a plain PTYPE header relying on the carried-over options",
            opts: 0,
            calls: {
                let mut ih = StdHdr::custom(128, 96, false, 0, 6);
                {
                    let p = ih.plus.as_mut().unwrap();
                    p.opp.srcfmt = 1;
                    p.opp.modes = 0b10_0000_0000;
                }
                let far = |tr: u8| -> Vec<u8> {
                    let mut mbs = vec![Mb::inter((31, 0)), Mb::inter((10, 0)), Mb::inter((-20, 31)), Mb::inter((0, 9))];
                    mbs.extend((4..48).map(|i| if i % 5 == 0 { Mb::inter((-31, -31)) } else { Mb::NotCoded }));
                    encode_bytes(&Pic { hdr: Hdr::Std(StdHdr::baseline(1, true, tr, 6)), mbs })
                };
                // the second picture repeats the PLUSPTYPE header (extended vector range, UUI = 1) with the same
                // temporal reference as the second picture of the other standard-mode scripts; the third
                // has a plain PTYPE header and relies on the options carried over
                let far_plus = {
                    let mut ph = StdHdr::custom(128, 96, true, 1, 6);
                    {
                        let p = ph.plus.as_mut().unwrap();
                        p.opp.srcfmt = 1;
                        p.opp.modes = 0b10_0000_0000;
                        p.uui = 1;
                    }
                    let mut mbs = vec![Mb::inter((31, 0)), Mb::inter((10, 0)), Mb::inter((-20, 31)), Mb::inter((0, 9))];
                    mbs.extend((4..48).map(|i| if i % 5 == 0 { Mb::inter((-31, -31)) } else { Mb::NotCoded }));
                    encode_bytes(&Pic { hdr: Hdr::Std(ph), mbs })
                };
                vec![a(encode_bytes(&noise_intra(Hdr::Std(ih), seed ^ 15))), a(far_plus), a(far(2))]
            },
        },
        Script {
            name: "sorenson: I 16x16, P 16x16 all-not-coded, I 32x16",
            opts: 1,
            calls: vec![a(encode_bytes(&noise_intra(shdr(16, 16, 0, 0, 12, 1), seed ^ 6))), a(encode_bytes(&Pic { hdr: shdr(16, 16, 1, 1, 12, 1), mbs: vec![Mb::NotCoded] })), a(encode_bytes(&noise_intra(shdr(32, 16, 0, 2, 12, 0), seed ^ 7)))],
        },
    ]
}

/// Scripts for the first-use check only (each is run alone as the first work of a fresh process and
/// compared with the same script in a process that has decoded before): plain-PTYPE pictures with
/// each PTYPE option bit set, after a PLUSPTYPE picture that switches nothing on and after nothing -
/// what the option masks strip and what they carry over is decided by process-wide lazily
/// initialised values.
pub fn first_use_scripts(seed: u64) -> Vec<Script> {
    let a = |v: Vec<u8>| Arc::new(v);
    let mut v = vec![];
    let far = |h: StdHdr| -> Vec<u8> {
        let mut mbs = vec![Mb::inter((31, 0)), Mb::inter((10, 0)), Mb::inter((-20, 31)), Mb::inter((0, 9))];
        mbs.extend((4..48).map(|i| if i % 5 == 0 { Mb::inter((-31, -31)) } else { Mb::NotCoded }));
        encode_bytes(&Pic { hdr: Hdr::Std(h), mbs })
    };
    let names = ["UMV", "SAC", "AP", "PB"];
    for bit in 0..4usize {
        let with_bit = |inter: bool, tr: u8| -> StdHdr {
            let mut h = StdHdr::baseline(1, inter, tr, 6);
            match bit {
                0 => h.umv = true,
                1 => h.sac = true,
                2 => h.ap = true,
                _ => h.pb = true,
            }
            h
        };
        let mut ih = StdHdr::custom(128, 96, false, 0, 6);
        ih.plus.as_mut().unwrap().opp.srcfmt = 1;
        v.push(Script {
            name: Box::leak(format!("first use: I sub-QCIF (PLUSPTYPE, no options), then a plain-PTYPE P picture with the {} bit set and far vectors", names[bit]).into_boxed_str()),
            opts: 0,
            calls: vec![a(encode_bytes(&noise_intra(Hdr::Std(ih), seed ^ 16))), a(far(with_bit(true, 1))), a(far(StdHdr::baseline(1, true, 2, 6)))],
        });
        v.push(Script {
            name: Box::leak(format!("first use: plain-PTYPE I picture with the {} bit set, then a plain-PTYPE P picture with far vectors", names[bit]).into_boxed_str()),
            opts: 0,
            calls: vec![a(encode_bytes(&noise_intra(Hdr::Std(with_bit(false, 0)), seed ^ 17))), a(far(StdHdr::baseline(1, true, 1, 6)))],
        });
    }
    v
}

/// One-picture letters for the purity sweep: intra pictures over quantizers x level classes x
/// sizes x stream kinds, truncated and rejected variants.
pub fn purity_letters(seed: u64) -> Vec<(String, u8, Vec<u8>)> {
    let mut v = vec![];
    for &(w, h) in &[(16u16, 16u16), (32, 16), (16, 32)] {
        for q in [1u8, 5, 16, 31] {
            for (ln, level) in [("small", 3i16), ("mid", 50), ("large", 127)] {
                for version in [0u8, 1] {
                    let (mbw, mbh) = mb_grid(w, h);
                    let mbs: Vec<Mb> = (0..mbw * mbh)
                        .map(|i| {
                            let mut blocks: [Blk; 6] = std::array::from_fn(|b| Blk::dc(60 + ((i * 6 + b) * 7 % 60) as u8));
                            blocks[i % 6].ev = vec![ev_auto(true, (i % 5) as u8, if i % 2 == 0 { level } else { -level }, version == 1)];
                            blocks[(i + 3) % 6].ev = vec![ev_auto(false, 0, 2, version == 1), ev_auto(true, 7, -1, version == 1)];
                            Mb::Coded { kind: Kind::Intra, dquant: 0, mvd: vec![], blocks }
                        })
                        .collect();
                    let pic = Pic { hdr: shdr(w, h, 0, q, q, version), mbs };
                    v.push((format!("I {w}x{h} q{q} level-{ln} v{version}"), 1u8, encode_bytes(&pic)));
                    if q == 31 && level == 127 {
                        let mut t = pic.clone();
                        t.mbs.truncate(1);
                        let mut bytes = encode_bytes(&t);
                        v.push((format!("I {w}x{h} q{q} cut after 1 macroblock v{version}"), 1, bytes.clone()));
                        // rejected after stored coefficients: append a macroblock with a forbidden INTRADC in block 2
                        bytes = {
                            let mut wr = encode(&t);
                            wr.put_bits(&[true, false, false, true, true]);
                            for _ in 0..2 {
                                wr.put(0xFA, 8);
                            }
                            wr.put(0, 20);
                            wr.bytes
                        };
                        v.push((format!("I {w}x{h} q{q} rejected in its second macroblock v{version}"), 1, bytes));
                    }
                }
            }
        }
    }
    // blocks whose runs leave the 64 positions (malformed but tolerated: the coefficients of such a
    // block are dropped): what the block then contains must not come from anybody else's decode
    for &(w, h) in &[(16u16, 16u16), (32, 16), (16, 32)] {
        for version in [0u8, 1] {
            let (mbw, mbh) = mb_grid(w, h);
            let n = mbw * mbh;
            for which in 0..2usize {
                let mbs: Vec<Mb> = (0..n)
                    .map(|i| {
                        let mut blocks: [Blk; 6] = std::array::from_fn(|b| Blk::dc(70 + ((i * 6 + b) * 11 % 90) as u8));
                        let hit = if which == 0 { i == 0 } else { i + 1 == n };
                        if hit {
                            for (b, blk) in blocks.iter_mut().enumerate() {
                                if which == 1 || b == 0 {
                                    blk.ev = vec![ev_auto(false, 40, 3, version == 1), ev_auto(true, 40, -2, version == 1)];
                                }
                            }
                        }
                        Mb::Coded { kind: Kind::Intra, dquant: 0, mvd: vec![], blocks }
                    })
                    .collect();
                let pic = Pic { hdr: shdr(w, h, 0, 9, 7, version), mbs };
                v.push((format!("I {w}x{h} v{version} with runs leaving the block in {}", if which == 0 { "block 0 of the first macroblock" } else { "every block of the last macroblock" }), 1u8, encode_bytes(&pic)));
            }
        }
    }
    // Sorenson v1 wide levels
    for q in [2u8, 31] {
        for level in [600i16, -1023] {
            let blocks: [Blk; 6] = std::array::from_fn(|b| {
                let mut k = Blk::dc(100);
                if b % 2 == 0 {
                    k.ev = vec![Ev { run: b as u8, level, form: Form::Esc11 }];
                }
                k
            });
            v.push((format!("I 16x16 q{q} 11-bit level {level}"), 1, encode_bytes(&Pic { hdr: shdr(16, 16, 0, 3, q, 1), mbs: vec![Mb::Coded { kind: Kind::Intra, dquant: 0, mvd: vec![], blocks }] })));
        }
    }
    // standard mode
    for q in [3u8, 30] {
        v.push((format!("std I 32x16 q{q}"), 0, encode_bytes(&noise_intra(Hdr::Std(StdHdr::custom(32, 16, false, 1, q)), seed ^ q as u64))));
        v.push((format!("std+scal I 32x16 q{q}"), 2, encode_scal(&noise_intra(Hdr::Std(StdHdr::custom(32, 16, false, 1, q)), seed ^ q as u64))));
    }
    v.push(("garbage".into(), 1, vec![0x12, 0x34, 0x56]));
    v
}


/// One-picture letters (Sorenson mode, mostly 32x16, distinct contents, temporal references that
/// collide on purpose) for the history sweep over fresh instances.
pub fn history_letters_std(seed: u64) -> Vec<(&'static str, Arc<Vec<u8>>)> {
    let a = |v: Vec<u8>| Arc::new(v);
    let p_pic = |hdr: Hdr, specs: &[Spec], mbw: usize| -> Vec<u8> {
        let v1 = hdr.v1();
        let mut p = Pic { hdr, mbs: mbs_for(specs, mbw, v1, true) };
        fix_last_flags(&mut p);
        encode_bytes(&p)
    };
    let h = |w: u16, hh: u16, inter: bool, tr: u8| Hdr::Std(StdHdr::custom(w, hh, inter, tr, 5));
    vec![
        ("std I", a(encode_bytes(&noise_intra(h(32, 16, false, 0), seed ^ 31)))),
        ("std P-moving", a(p_pic(h(32, 16, true, 1), &[Spec::NotCoded, Spec::Inter((5, 5), false)], 2))),
        ("std P-all-not-coded", a(encode_bytes(&Pic { hdr: h(32, 16, true, 2), mbs: vec![Mb::NotCoded, Mb::NotCoded] }))),
        ("std P-rejected (invalid MVD)", a(encode_bytes(&Pic { hdr: h(32, 16, true, 3), mbs: vec![Mb::inter((1, 1)), Mb::Raw(vec![false, true, true, true, false, false, false, false, false, false, false, false, false, false, false, false, false, false])] }))),
        ("std I-rejected-mid-picture", a(bad_mid_picture(true))),
        ("std I-cut-after-first-macroblock", a({
            let mut p = noise_intra(h(32, 16, false, 4), seed ^ 32);
            p.mbs.truncate(1);
            encode_bytes(&p)
        })),
        ("std P-tr0-intra+moving", a(p_pic(h(32, 16, true, 0), &[Spec::Intra, Spec::Inter((-3, 2), false)], 2))),
        ("std I-16x16", a(encode_bytes(&Pic { hdr: h(16, 16, false, 6), mbs: vec![Mb::intra_flat(90)] }))),
    ]
}

pub fn history_letters(seed: u64) -> Vec<(&'static str, Arc<Vec<u8>>)> {
    let a = |v: Vec<u8>| Arc::new(v);
    let p_pic = |hdr: Hdr, specs: &[Spec], mbw: usize| -> Vec<u8> {
        let v1 = hdr.v1();
        let mut p = Pic { hdr, mbs: mbs_for(specs, mbw, v1, true) };
        fix_last_flags(&mut p);
        encode_bytes(&p)
    };
    vec![
        ("I", a(encode_bytes(&noise_intra(shdr(32, 16, 0, 0, 6, 0), seed ^ 21)))),
        ("P-moving", a(p_pic(shdr(32, 16, 1, 1, 6, 0), &[Spec::Inter((3, -2), false), Spec::NotCoded], 2))),
        ("D-moving-intra", a(p_pic(shdr(32, 16, 2, 2, 6, 0), &[Spec::Intra, Spec::Inter((4, -4), false)], 2))),
        ("I-rejected-mid-picture", a(bad_mid_picture(false))),
        ("P-all-not-coded", a(encode_bytes(&Pic { hdr: shdr(32, 16, 1, 3, 6, 0), mbs: vec![Mb::NotCoded, Mb::NotCoded] }))),
        ("I-cut-after-first-macroblock", a({
            let mut p = noise_intra(shdr(32, 16, 0, 4, 7, 0), seed ^ 22);
            p.mbs.truncate(1);
            encode_bytes(&p)
        })),
        ("D-tr0-bright", a(encode_bytes(&Pic { hdr: shdr(32, 16, 2, 0, 6, 0), mbs: vec![Mb::intra_flat(220), Mb::inter((1, -1))] }))),
        ("P-rejected-mid-picture", a({
            let p = Pic { hdr: shdr(32, 16, 1, 5, 5, 0), mbs: vec![Mb::inter((1, 1)), Mb::Raw(vec![false, true, true, true, false, false, false, false, false, false, false, false, false, false, false, false, false, false])] };
            encode_bytes(&p)
        })),
        ("I-16x16", a(encode_bytes(&Pic { hdr: shdr(16, 16, 0, 6, 6, 0), mbs: vec![Mb::intra_flat(90)] }))),
        ("P-16x16-moving", a(encode_bytes(&Pic { hdr: shdr(16, 16, 1, 7, 6, 0), mbs: vec![Mb::inter((2, 3))] }))),
    ]
}

fn run_history(opts: u8, letters: &[(&'static str, Arc<Vec<u8>>)], word: &[usize]) -> Vec<Obs> {
    let mut st = H263State::new(options_from_bits(opts));
    word.iter()
        .map(|&l| {
            let o = decode_bytes(&mut st, &letters[l].1);
            observe(&st, &o)
        })
        .collect()
}

/// Every history over `history_letters` up to `depth` calls, each executed on `instances` fresh
/// decoders (every H263State builds its maps with their own hash seeds; the seeds themselves cannot
/// be enumerated from outside, the instances sample them): all observation sequences must be equal.
fn history_instances(rep: &Report, seed: u64, opts: u8, depth: usize, instances: usize) {
    let letters = if opts == 0 { history_letters_std(seed) } else { history_letters(seed) };
    let n = letters.len();
    let mut words: Vec<Vec<usize>> = vec![];
    for d in 1..=depth {
        let total = n.pow(d as u32);
        for mut k in 0..total {
            let mut w = Vec::with_capacity(d);
            for _ in 0..d {
                w.push(k % n);
                k /= n;
            }
            words.push(w);
        }
    }
    let outcomes = std::sync::Mutex::new(std::collections::BTreeSet::new());
    let accepted_after_reject = std::sync::atomic::AtomicU64::new(0);
    words.par_iter().for_each(|w| {
        let first = run_history(opts, &letters, w);
        let mut rejected = false;
        for o in &first {
            if o.0 != "Ok" {
                rejected = true;
            } else if rejected {
                accepted_after_reject.fetch_add(1, std::sync::atomic::Ordering::Relaxed);
                break;
            }
        }
        for k in 1..instances {
            let again = run_history(opts, &letters, w);
            if again != first {
                let at = (0..first.len()).find(|&i| first[i] != again[i]).unwrap_or(0);
                let names: Vec<&str> = w.iter().map(|&l| letters[l].0).collect();
                rep.violation_lazy("C17/history-gives-different-results-on-fresh-instances", || {
                    (
                        format!("history {names:?} on fresh decoder #{k}: call {at} gives {:?}, on the first decoder it gave {:?}", again[at], first[at]),
                        json!({"kind": "interleaving", "placement": "fresh-instances", "order": [], "instances": [{"name": format!("{names:?}"), "options": opts, "calls": w.iter().map(|&l| hex(&letters[l].1)).collect::<Vec<_>>()}]}),
                    )
                });
                break;
            }
        }
        if w.len() == depth {
            let mut g = outcomes.lock().unwrap();
            for o in first {
                g.insert(o);
            }
        }
    });
    rep.add_states(words.len() as u64);
    rep.add_nontrivial(words.len() as u64);
    rep.add_transitions(words.iter().map(|w| (w.len() * instances) as u64).sum());
    rep.extra(if opts == 0 { "history_letters_standard_mode" } else { "history_letters" }, json!(letters.iter().map(|l| l.0).collect::<Vec<_>>()));
    rep.extra(if opts == 0 { "histories_on_fresh_instances_standard_mode" } else { "histories_on_fresh_instances" }, json!({"depth": depth, "histories": words.len(), "instances_per_history": instances, "distinct_call_outcomes": outcomes.into_inner().unwrap().len(), "histories_with_an_accepted_call_after_a_rejected_one": accepted_after_reject.into_inner()}));
}

/// Two-picture streams (an I picture and a predicted picture that codes only part of its
/// macroblocks) over sizes that share a macroblock count or a row length: every ordered pair of
/// streams is decoded by two decoders on one *new* thread - one after the other, and picture by
/// picture in turn - and the second stream's observations must equal those of the stream decoded
/// alone on another new thread.
fn stream_pair_purity(rep: &Report, seed: u64) {
    let mut streams: Vec<(String, Vec<Arc<Vec<u8>>>)> = vec![];
    for &(w, h) in &[(32u16, 16u16), (16, 32), (16, 16), (48, 16), (32, 32), (24, 19)] {
        let (mbw, mbh) = mb_grid(w, h);
        let n = mbw * mbh;
        for kind in 0..3usize {
            let specs: Vec<Spec> = (0..n)
                .map(|i| match kind {
                    0 => {
                        if i == 0 {
                            Spec::Inter((2, -1), false)
                        } else {
                            Spec::NotCoded
                        }
                    }
                    1 => Spec::NotCoded,
                    _ => {
                        if i + 1 == n {
                            Spec::Inter4V([(1, 1), (-2, 3), (4, -4), (0, 7)], false)
                        } else if i % 2 == 0 {
                            Spec::NotCoded
                        } else {
                            Spec::Intra
                        }
                    }
                })
                .collect();
            let hdr = shdr(w, h, 1, 1, 6, 0);
            let mut p = Pic { hdr, mbs: mbs_for(&specs, mbw, false, true) };
            fix_last_flags(&mut p);
            let i_pic = noise_intra(shdr(w, h, 0, 0, 6, 0), seed ^ (w as u64 * 131 + h as u64));
            streams.push((format!("{w}x{h} I, P ({})", ["first macroblock coded, rest skipped", "all skipped", "every second macroblock intra, last with four vectors"][kind]), vec![Arc::new(encode_bytes(&i_pic)), Arc::new(encode_bytes(&p))]));
        }
    }
    let run = |calls: Vec<(usize, Arc<Vec<u8>>)>, n_dec: usize| -> Vec<Vec<Obs>> {
        std::thread::spawn(move || {
            crate::evidence::install_panic_hook();
            let mut sts: Vec<H263State> = (0..n_dec).map(|_| H263State::new(options_from_bits(1))).collect();
            let mut obs: Vec<Vec<Obs>> = vec![vec![]; n_dec];
            for (d, bytes) in calls {
                let o = decode_bytes(&mut sts[d], &bytes);
                obs[d].push(observe(&sts[d], &o));
            }
            obs
        })
        .join()
        .unwrap_or_default()
    };
    let alone: Vec<Vec<Obs>> = streams.iter().map(|(_, c)| run(c.iter().map(|b| (0usize, b.clone())).collect(), 1).pop().unwrap_or_default()).collect();
    let n = streams.len();
    let pairs: Vec<(usize, usize)> = (0..n).flat_map(|a| (0..n).map(move |b| (a, b))).collect();
    pairs.par_iter().for_each(|&(a, b)| {
        for order in 0..2usize {
            let (ca, cb) = (&streams[a].1, &streams[b].1);
            let calls: Vec<(usize, Arc<Vec<u8>>)> = if order == 0 {
                vec![(0, ca[0].clone()), (0, ca[1].clone()), (1, cb[0].clone()), (1, cb[1].clone())]
            } else {
                vec![(0, ca[0].clone()), (1, cb[0].clone()), (0, ca[1].clone()), (1, cb[1].clone())]
            };
            let obs = run(calls, 2);
            if obs.len() != 2 || obs[1] != alone[b] || obs[0] != alone[a] {
                let which = if obs.len() == 2 && obs[0] != alone[a] { a } else { b };
                rep.violation_lazy("C17/stream-depends-on-another-stream-on-the-thread", || {
                    (
                        format!("streams '{}' and '{}' decoded by two decoders on one new thread ({}): stream '{}' gives {:?}, alone on a new thread {:?}", streams[a].0, streams[b].0, if order == 0 { "one after the other" } else { "picture by picture in turn" }, streams[which].0, obs.get(if which == a { 0 } else { 1 }), alone[which]),
                        json!({"kind": "interleaving", "placement": "same-thread", "order": if order == 0 { vec![0, 0, 1, 1] } else { vec![0, 1, 0, 1] }, "instances": [{"name": streams[a].0, "options": 1, "calls": streams[a].1.iter().map(|c| hex(c)).collect::<Vec<_>>()}, {"name": streams[b].0, "options": 1, "calls": streams[b].1.iter().map(|c| hex(c)).collect::<Vec<_>>()}]}),
                    )
                });
            }
        }
    });
    rep.add_states(2 * pairs.len() as u64);
    rep.add_transitions(8 * pairs.len() as u64);
    rep.extra("stream_pairs_on_one_new_thread", json!({"streams": n, "ordered_pairs_x_orders": 2 * pairs.len(), "accepted_calls_alone": alone.iter().flatten().filter(|o| o.0 == "Ok").count()}));
}

/// run a script alone, sequentially
pub fn solo(s: &Script) -> Vec<Obs> {
    let mut st = H263State::new(options_from_bits(s.opts));
    s.calls
        .iter()
        .map(|c| {
            let o = decode_bytes(&mut st, c);
            observe(&st, &o)
        })
        .collect()
}

/// all interleavings of `counts[i]` calls of instance i (multiset permutations)
fn interleavings(counts: &[usize]) -> Vec<Vec<usize>> {
    fn rec(left: &mut Vec<usize>, cur: &mut Vec<usize>, out: &mut Vec<Vec<usize>>) {
        if left.iter().all(|c| *c == 0) {
            out.push(cur.clone());
            return;
        }
        for i in 0..left.len() {
            if left[i] > 0 {
                left[i] -= 1;
                cur.push(i);
                rec(left, cur, out);
                cur.pop();
                left[i] += 1;
            }
        }
    }
    let mut out = vec![];
    rec(&mut counts.to_vec(), &mut vec![], &mut out);
    out
}

/// placement (a): every instance on the calling thread
fn run_same_thread(cfg: &[&Script], order: &[usize]) -> Vec<Vec<Obs>> {
    let mut sts: Vec<H263State> = cfg.iter().map(|s| H263State::new(options_from_bits(s.opts))).collect();
    let mut next = vec![0usize; cfg.len()];
    let mut obs: Vec<Vec<Obs>> = vec![vec![]; cfg.len()];
    for &i in order {
        let c = &cfg[i].calls[next[i]];
        next[i] += 1;
        let o = decode_bytes(&mut sts[i], c);
        obs[i].push(observe(&sts[i], &o));
    }
    obs
}

/// placement (b): one OS thread per instance; a call runs only while its thread holds the token
fn run_thread_per_instance(cfg: &[&Script], order: &[usize]) -> Vec<Vec<Obs>> {
    let mut txs = vec![];
    let mut handles = vec![];
    let (done_tx, done_rx) = mpsc::channel::<(usize, Obs)>();
    for (i, s) in cfg.iter().enumerate() {
        let (tx, rx) = mpsc::channel::<usize>();
        txs.push(tx);
        let calls = s.calls.clone();
        let opts = s.opts;
        let done = done_tx.clone();
        handles.push(std::thread::spawn(move || {
            crate::evidence::install_panic_hook();
            let mut st = H263State::new(options_from_bits(opts));
            while let Ok(k) = rx.recv() {
                let o = decode_bytes(&mut st, &calls[k]);
                let _ = done.send((i, observe(&st, &o)));
            }
        }));
    }
    let mut next = vec![0usize; cfg.len()];
    let mut obs: Vec<Vec<Obs>> = vec![vec![]; cfg.len()];
    for &i in order {
        txs[i].send(next[i]).unwrap();
        next[i] += 1;
        let (j, o) = done_rx.recv().unwrap();
        obs[j].push(o);
    }
    drop(txs);
    for h in handles {
        let _ = h.join();
    }
    obs
}

/// free-running threads (sampling, labelled as such)
fn run_free(cfg: &[&Script]) -> Vec<Vec<Obs>> {
    let handles: Vec<_> = cfg
        .iter()
        .map(|s| {
            let s = (*s).clone();
            std::thread::spawn(move || solo(&s))
        })
        .collect();
    handles.into_iter().map(|h| h.join().unwrap_or_default()).collect()
}

fn cfg_replay(cfg: &[&Script], order: &[usize], placement: &str) -> serde_json::Value {
    json!({
        "kind": "interleaving", "placement": placement, "order": order,
        "instances": cfg.iter().map(|s| json!({"name": s.name, "options": s.opts, "calls": s.calls.iter().map(|c| hex(c)).collect::<Vec<_>>()})).collect::<Vec<_>>(),
    })
}

/// child-process entry "wrap": instance A decodes I, then another instance decodes `n` pictures,
/// then A decodes a disposable picture and an all-skipped P picture. Single-threaded, deterministic.
fn child_wrap(n: usize) -> i32 {
    let i = encode_bytes(&Pic { hdr: shdr(16, 16, 0, 1, 5, 0), mbs: vec![Mb::intra_flat(50)] });
    let d = encode_bytes(&Pic { hdr: shdr(16, 16, 2, 2, 5, 0), mbs: vec![Mb::intra_flat(200)] });
    let p = encode_bytes(&Pic { hdr: shdr(16, 16, 1, 3, 5, 0), mbs: vec![Mb::NotCoded] });
    let other = encode_bytes(&Pic { hdr: shdr(16, 16, 0, 9, 5, 0), mbs: vec![Mb::intra_flat(90)] });
    let mut a = H263State::new(options_from_bits(1));
    let mut b = H263State::new(options_from_bits(1));
    let mut obs: Vec<Obs> = vec![];
    let o = decode_bytes(&mut a, &i);
    obs.push(observe(&a, &o));
    for _ in 0..n {
        let _ = decode_bytes(&mut b, &other);
    }
    let o = decode_bytes(&mut a, &d);
    obs.push(observe(&a, &o));
    let o = decode_bytes(&mut a, &p);
    obs.push(observe(&a, &o));
    println!("{}", serde_json::to_string(&obs).unwrap());
    0
}

/// child-process entry: run one interleaving in a fresh process, print observations
pub fn child(args: &[String]) -> i32 {
    if args.first().map(|s| s == "wrap").unwrap_or(false) {
        return child_wrap(args.get(1).and_then(|s| s.parse().ok()).unwrap_or(0));
    }
    let seed: u64 = args[0].parse().unwrap_or(0);
    let ids: Vec<usize> = args[1].split(',').map(|x| x.parse().unwrap()).collect();
    let order: Vec<usize> = args[2].split(',').map(|x| x.parse().unwrap()).collect();
    let all = if args.get(3).map(|s| s == "first-use").unwrap_or(false) { first_use_scripts(seed) } else { scripts(seed) };
    let cfg: Vec<&Script> = ids.iter().map(|i| &all[*i]).collect();
    let obs = if args.get(3).map(|s| s == "threads").unwrap_or(false) { run_thread_per_instance(&cfg, &order) } else { run_same_thread(&cfg, &order) };
    println!("{}", serde_json::to_string(&obs).unwrap());
    0
}

pub fn run(tier: Tier) -> Report {
    let rep = Report::new("C17", "determinism", tier);
    let seed = crate::evidence::seed();
    let all = scripts(seed);
    // baselines: solo runs, on this thread and on a fresh thread each; they must agree
    let base: Vec<Vec<Obs>> = all.iter().map(solo).collect();
    for (i, s) in all.iter().enumerate() {
        let s2 = s.clone();
        let t = std::thread::spawn(move || solo(&s2)).join().unwrap_or_default();
        let again = solo(s);
        rep.add_transitions(3 * s.calls.len() as u64);
        if t != base[i] || again != base[i] {
            rep.violation("C17/solo-run-not-reproducible", format!("script '{}' gives different results when run again / on another thread", s.name), cfg_replay(&[s], &[0, 0, 0], "solo"));
        }
        // the scripts must be meaningful: at least one accepted and, where intended, one rejected call
        rep.sample(json!({"script": s.name, "options": s.opts, "solo_observations": base[i].iter().map(|o| format!("{} {:016x}", o.0, o.1.unwrap_or(0))).collect::<Vec<_>>()}));
    }
    // configurations: all pairs (with repetition) and, for triples, all multisets (thorough) or a covering subset
    let n = all.len();
    let mut cfgs: Vec<Vec<usize>> = vec![];
    for i in 0..n {
        for j in i..n {
            cfgs.push(vec![i, j]);
        }
    }
    for i in 0..n {
        for j in i..n {
            for k in j..n {
                if tier.thorough() || (i + 2 * j + 3 * k) % 5 == 0 {
                    cfgs.push(vec![i, j, k]);
                }
            }
        }
    }
    let outcomes = std::sync::Mutex::new(std::collections::BTreeSet::new());
    let thorough = tier.thorough();
    let n_inter: u64 = cfgs
        .par_iter()
        .map(|ids| {
            // every configuration gets a fresh OS thread for its same-thread placement
            std::thread::scope(|sc| {
                sc.spawn(|| {
                    crate::evidence::install_panic_hook();
                    let cfg: Vec<&Script> = ids.iter().map(|i| &all[*i]).collect();
                    let counts: Vec<usize> = cfg.iter().map(|s| s.calls.len()).collect();
                    let orders = interleavings(&counts);
                    let mut n = 0u64;
                    let mut seen = std::collections::BTreeSet::new();
                    for (oi, order) in orders.iter().enumerate() {
                        for placement in ["same-thread", "thread-per-instance"] {
                            // thread-per-instance for every interleaving of pairs; for triples a third of them in quick
                            if placement == "thread-per-instance" && ids.len() == 3 && !thorough && oi % 3 != 0 {
                                continue;
                            }
                            let obs = if placement == "same-thread" { run_same_thread(&cfg, order) } else { run_thread_per_instance(&cfg, order) };
                            n += 1;
                            rep.add_transitions(order.len() as u64);
                            for (slot, id) in ids.iter().enumerate() {
                                for o in &obs[slot] {
                                    seen.insert(o.clone());
                                }
                                if obs[slot] != base[*id] {
                                    let k = (0..obs[slot].len().min(base[*id].len())).find(|&k| obs[slot][k] != base[*id][k]).unwrap_or(0);
                                    rep.violation(
                                        &format!("C17/instance-result-depends-on-interleaving[{placement}]"),
                                        format!(
                                            "instances {:?}, order {order:?} ({placement}): call {k} of instance {slot} ('{}') gives {:?}, alone it gives {:?}",
                                            ids,
                                            all[*id].name,
                                            obs[slot].get(k),
                                            base[*id].get(k)
                                        ),
                                        cfg_replay(&cfg, order, placement),
                                    );
                                }
                            }
                        }
                    }
                    outcomes.lock().unwrap().extend(seen);
                    n
                })
                .join()
                .unwrap_or(0)
            })
        })
        .sum();
    let outcomes = outcomes.into_inner().unwrap();
    rep.add_states(n_inter);
    rep.add_nontrivial(n_inter);
    rep.extra("configurations", json!(cfgs.len()));
    rep.extra("interleavings_executed", json!(n_inter));
    rep.extra("distinct_call_outcomes", json!(outcomes.len()));
    // single-call purity: for every ordered pair (A, B) of one-picture letters, decode A on one fresh
    // decoder and then B on another fresh decoder on the same thread; B must equal B decoded alone
    {
        let letters = purity_letters(seed);
        let solo_obs: Vec<Obs> = letters
            .iter()
            .map(|(_, opts, bytes)| {
                let (o, b) = (*opts, bytes.clone());
                std::thread::spawn(move || {
                    let mut st = H263State::new(options_from_bits(o));
                    let out = decode_bytes(&mut st, &b);
                    observe(&st, &out)
                })
                .join()
                .unwrap()
            })
            .collect();
        let n = letters.len();
        let rep_ref = &rep;
        let (lr, sr) = (&letters, &solo_obs);
        let chunks: Vec<usize> = (0..n).collect();
        chunks.par_iter().for_each(|&a| {
            // a fresh OS thread per first letter: histories are deterministic
            std::thread::scope(|sc| {
                sc.spawn(move || {
                    crate::evidence::install_panic_hook();
                    for b in 0..n {
                        let mut sa = H263State::new(options_from_bits(lr[a].1));
                        let _ = decode_bytes(&mut sa, &lr[a].2);
                        let mut sb = H263State::new(options_from_bits(lr[b].1));
                        let out = decode_bytes(&mut sb, &lr[b].2);
                        if observe(&sb, &out) != sr[b] {
                            rep_ref.violation_lazy("C17/result-depends-on-previous-decode-on-thread", || {
                                (
                                    format!("'{}' decoded on a fresh decoder right after '{}' (another decoder, same thread) gives {:?}; alone it gives {:?}", lr[b].0, lr[a].0, observe(&sb, &out), sr[b]),
                                    json!({"kind": "interleaving", "placement": "same-thread", "order": [0, 1], "instances": [{"name": lr[a].0, "options": lr[a].1, "calls": [hex(&lr[a].2)]}, {"name": lr[b].0, "options": lr[b].1, "calls": [hex(&lr[b].2)]}]}),
                                )
                            });
                        }
                    }
                });
            });
        });
        rep.add_transitions(2 * (n * n) as u64);
        rep.add_states((n * n) as u64);
        rep.extra("purity_letters", json!(n));
        rep.extra("purity_ordered_pairs", json!(n * n));
    }
    // fresh processes: who touches the lazily initialised option masks first
    let exe = std::env::current_exe().expect("exe");
    let mut n_child = 0u64;
    for i in 0..n {
        for j in 0..n {
            if i == j {
                continue;
            }
            for threads in [false, true] {
                if threads && !tier.thorough() && (i + j) % 2 == 1 {
                    continue;
                }
                // alternate the two instances until both scripts are used up
                let (ci, cj) = (all[i].calls.len(), all[j].calls.len());
                let mut order: Vec<usize> = vec![];
                for k in 0..ci.max(cj) {
                    if k < ci {
                        order.push(0);
                    }
                    if k < cj {
                        order.push(1);
                    }
                }
                let out = std::process::Command::new(&exe)
                    .arg("det-child")
                    .arg(seed.to_string())
                    .arg(format!("{i},{j}"))
                    .arg(order.iter().map(|x| x.to_string()).collect::<Vec<_>>().join(","))
                    .arg(if threads { "threads" } else { "same" })
                    .output();
                n_child += 1;
                rep.add_transitions(order.len() as u64);
                let parsed: Option<Vec<Vec<Obs>>> = out.ok().and_then(|o| serde_json::from_slice(&o.stdout).ok());
                match parsed {
                    None => rep.violation("C17/child-process-failed", format!("fresh process for scripts {i},{j} did not report"), json!({"kind": "det-child", "scripts": [i, j]})),
                    Some(obs) => {
                        if obs[0] != base[i] || obs[1] != base[j] {
                            rep.violation(
                                "C17/fresh-process-differs",
                                format!("scripts '{}' and '{}' interleaved in a fresh process ({}) differ from their solo runs", all[i].name, all[j].name, if threads { "thread per instance" } else { "one thread" }),
                                cfg_replay(&[&all[i], &all[j]], &order, "fresh-process"),
                            );
                        }
                    }
                }
            }
        }
    }
    // every script alone as the very first work of a fresh process (what a lazily initialised global
    // answers on its first use)
    for i in 0..n {
        let order: Vec<usize> = vec![0; all[i].calls.len()];
        let out = std::process::Command::new(&exe).arg("det-child").arg(seed.to_string()).arg(format!("{i}")).arg(order.iter().map(|x| x.to_string()).collect::<Vec<_>>().join(",")).arg("same").output();
        n_child += 1;
        rep.add_transitions(order.len() as u64);
        let parsed: Option<Vec<Vec<Obs>>> = out.ok().and_then(|o| serde_json::from_slice(&o.stdout).ok());
        match parsed {
            None => rep.violation("C17/child-process-failed", format!("fresh process for script {i} did not report"), json!({"kind": "det-child", "scripts": [i]})),
            Some(obs) => {
                if obs[0] != base[i] {
                    let k = (0..obs[0].len().min(base[i].len())).find(|&k| obs[0][k] != base[i][k]).unwrap_or(0);
                    rep.violation(
                        "C17/first-use-in-a-fresh-process-differs",
                        format!("script '{}' run as the first work of a fresh process: call {k} gives {:?}; in a process that has decoded before it gives {:?}", all[i].name, obs[0].get(k), base[i].get(k)),
                        json!({"kind": "det-child", "scripts": [i], "rerun": format!("vcheck det-child {seed} {i} {} same   (prints the observations of the fresh process)", order.iter().map(|x| x.to_string()).collect::<Vec<_>>().join(","))}),
                    );
                }
            }
        }
    }
    {
        let fu = first_use_scripts(seed);
        let mut accepted = 0u64;
        for (i, sc) in fu.iter().enumerate() {
            let warm = solo(sc);
            accepted += warm.iter().filter(|o| o.0 == "Ok").count() as u64;
            let order: Vec<usize> = vec![0; sc.calls.len()];
            let ord = order.iter().map(|x| x.to_string()).collect::<Vec<_>>().join(",");
            let out = std::process::Command::new(&exe).arg("det-child").arg(seed.to_string()).arg(format!("{i}")).arg(&ord).arg("first-use").output();
            n_child += 1;
            rep.add_transitions(2 * order.len() as u64);
            let parsed: Option<Vec<Vec<Obs>>> = out.ok().and_then(|o| serde_json::from_slice(&o.stdout).ok());
            match parsed {
                None => rep.violation("C17/child-process-failed", format!("fresh process for first-use script {i} did not report"), json!({"kind": "det-child", "first_use_script": i})),
                Some(obs) => {
                    if obs[0] != warm {
                        let k = (0..obs[0].len().min(warm.len())).find(|&k| obs[0][k] != warm[k]).unwrap_or(0);
                        rep.violation(
                            "C17/first-use-in-a-fresh-process-differs",
                            format!("'{}' run as the first work of a fresh process: call {k} gives {:?}; in a process that has decoded before it gives {:?}", sc.name, obs[0].get(k), warm.get(k)),
                            json!({"kind": "det-child", "first_use_script": i, "rerun": format!("vcheck det-child {seed} {i} {ord} first-use   (prints the observations of the fresh process)")}),
                        );
                    }
                }
            }
        }
        rep.extra("first_use_scripts", json!({"scripts": fu.len(), "accepted_calls_in_the_warm_process": accepted}));
    }
    // a long-lived instance next to a busy one: counters or keys shared between instances wrap
    // after 2^8 / 2^16 pictures decoded elsewhere in the process (fresh single-threaded processes)
    {
        let counts: Vec<usize> = if tier.thorough() { vec![0, 1, 254, 255, 256, 257, 65534, 65535, 65536, 65537, 131071, 131072] } else { vec![0, 255, 256, 65535, 65536] };
        let mut results: Vec<(usize, Option<Vec<Obs>>)> = vec![];
        for &n in &counts {
            let out = std::process::Command::new(&exe).arg("det-child").arg("wrap").arg(n.to_string()).output();
            let parsed: Option<Vec<Obs>> = out.ok().and_then(|o| serde_json::from_slice(&o.stdout).ok());
            rep.add_transitions(n as u64 + 3);
            n_child += 1;
            results.push((n, parsed));
        }
        let base0 = results[0].1.clone();
        for (n, r) in &results {
            if r.is_none() || *r != base0 {
                rep.violation(
                    "C17/result-depends-on-pictures-decoded-by-another-instance",
                    format!("instance A (I, disposable, all-skipped P) gives {:?} when another instance decodes {n} pictures in between, {:?} when it decodes none", r, base0),
                    json!({"kind": "det-child-wrap", "pictures_decoded_by_the_other_instance": n, "rerun": format!("vcheck det-child wrap {n}")}),
                );
            }
        }
    }
    rep.add_states(n_child);
    rep.extra("fresh_process_runs", json!(n_child));
    // 16 fresh instances in one process (each HashMap gets its own RandomState): sampling of seeds
    for (i, s) in all.iter().enumerate() {
        for _ in 0..32 {
            rep.add_transitions(s.calls.len() as u64);
            if solo(s) != base[i] {
                rep.violation("C17/instance-dependent-result", format!("script '{}' gives different results on another fresh instance", s.name), cfg_replay(&[s], &[0, 0, 0], "solo"));
            }
        }
    }
    stream_pair_purity(&rep, seed);
    // every history over a ten-letter alphabet, on several fresh instances each
    history_instances(&rep, seed, 1, if tier.thorough() { 5 } else { 4 }, if tier.thorough() { 12 } else { 8 });
    history_instances(&rep, seed, 0, if tier.thorough() { 5 } else { 4 }, if tier.thorough() { 12 } else { 8 });
    // free-running threads: sampling, labelled
    let rounds = if tier.thorough() { 400 } else { 60 };
    for r in 0..rounds {
        let ids: Vec<usize> = (0..4).map(|k| (r + k * (1 + r / n)) % n).collect();
        let cfg: Vec<&Script> = ids.iter().map(|i| &all[*i]).collect();
        let obs = run_free(&cfg);
        rep.add_transitions(cfg.iter().map(|s| s.calls.len() as u64).sum());
        for (slot, id) in ids.iter().enumerate() {
            if obs[slot] != base[*id] {
                rep.violation("C17/free-running-threads-differ", format!("script '{}' on a free-running thread next to {:?} differs from its solo run", all[*id].name, ids), cfg_replay(&cfg, &[], "free-running"));
            }
        }
    }
    rep.extra("free_running_rounds_sampled", json!(rounds));
    // inventory backing the call-granularity argument
    let inv = inventory();
    if let Some(m) = inv.as_object() {
        let extra: Vec<&String> = m.keys().filter(|k| k.as_str() != "lazy_static!").collect();
        if !extra.is_empty() {
            println!("NOTE: /repo now contains {extra:?}: the call-granularity assumption of C17 (no synchronisation or shared mutable state inside a call) no longer holds as stated");
        }
    }
    rep.extra("synchronisation_inventory", inv);
    rep.set_rule(
        "instances with their own histories (8 scripts of 3 calls: I/P/D, rejected mid-picture inputs, prediction without reference, both modes, all option sets): every interleaving (multiset permutation) of the calls of every pair and of triples of scripts, executed under an explicit scheduler on one thread and with one OS thread per instance (token passing); every instance's observations (Ok/Err, hash of picture+header after each call) must equal its solo run; every ordered pair of ~100 one-picture letters decoded back to back on one thread by two fresh decoders (single-call purity); every ordered pair of 18 two-picture streams (I + partly coded P over six sizes sharing macroblock counts or row lengths) on one new thread, one after the other and in turn, against the stream alone on a new thread; first-initialisation order in fresh child processes (every ordered pair of scripts alternating, and every script alone as the first work of a process, plus eight first-use scripts: plain-PTYPE pictures with each PTYPE option bit set, after a PLUSPTYPE picture and after nothing); 32 fresh instances per script and 8/12 fresh instances for every history of up to 4/5 calls over a ten-letter Sorenson and an eight-letter standard-mode alphabet (accepted, rejected and cut I/P/D pictures, colliding temporal references, a second size) - the histories are enumerated, the hash seeds of the instances are sampled; free-running threads (sampling); non-trivial = every interleaving (two or more instances)",
    );
    rep.assume("the crates contain no lock, atomic, channel, unsafe or static mut (inventory in the evidence), so a call on one instance has no scheduling point visible to a controlled scheduler: interleavings are explored at call granularity");
    rep
}

fn inventory() -> serde_json::Value {
    let mut found = std::collections::BTreeMap::new();
    fn walk(p: &std::path::Path, found: &mut std::collections::BTreeMap<String, u64>) {
        if let Ok(rd) = std::fs::read_dir(p) {
            for e in rd.flatten() {
                let path = e.path();
                if path.is_dir() {
                    walk(&path, found);
                } else if path.extension().map(|x| x == "rs").unwrap_or(false) {
                    if let Ok(s) = std::fs::read_to_string(&path) {
                        for l in s.lines() {
                            let t = l.trim_start();
                            if t.starts_with("//") {
                                continue;
                            }
                            for pat in ["unsafe", "static mut", "thread_local", "lazy_static!", "Mutex", "RwLock", "Atomic", "RefCell", "OnceCell", "OnceLock", "mpsc", "Arc<"] {
                                if t.contains(pat) {
                                    *found.entry(pat.to_string()).or_insert(0) += 1;
                                }
                            }
                        }
                    }
                }
            }
        }
    }
    for c in ["h263/src", "yuv/src", "deblock/src"] {
        walk(&std::path::Path::new(&std::env::var("VERIF_REPO").unwrap_or_else(|_| "/repo".to_string())).join(c), &mut found);
    }
    json!(found)
}

pub fn replay(case: &serde_json::Value) {
    let insts: Vec<Script> = case["instances"]
        .as_array()
        .into_iter()
        .flatten()
        .map(|i| Script { name: "replayed", opts: i["options"].as_u64().unwrap_or(1) as u8, calls: i["calls"].as_array().into_iter().flatten().map(|c| Arc::new(crate::bits::unhex(c.as_str().unwrap_or("")))).collect() })
        .collect();
    if case["placement"].as_str() == Some("fresh-instances") {
        let mut seen: std::collections::BTreeMap<Vec<Obs>, usize> = Default::default();
        for _ in 0..64 {
            *seen.entry(solo(&insts[0])).or_insert(0) += 1;
        }
        println!("history {} on 64 fresh decoders: {} distinct observation sequence(s)", case["instances"][0]["name"], seen.len());
        for (o, c) in &seen {
            println!("  {c:2} x {o:?}");
        }
        return;
    }
    let cfg: Vec<&Script> = insts.iter().collect();
    let mut order: Vec<usize> = case["order"].as_array().into_iter().flatten().map(|v| v.as_u64().unwrap() as usize).collect();
    if order.is_empty() {
        order = (0..cfg.len()).flat_map(|i| std::iter::repeat(i).take(cfg[i].calls.len())).collect();
    }
    let obs = if case["placement"].as_str() == Some("thread-per-instance") { run_thread_per_instance(&cfg, &order) } else { run_same_thread(&cfg, &order) };
    for (i, s) in insts.iter().enumerate() {
        let s2 = s.clone();
        let alone = std::thread::spawn(move || solo(&s2)).join().unwrap_or_default();
        println!("instance {i} ({}): interleaved {:?}", case["instances"][i]["name"], obs[i]);
        println!("instance {i}: alone       {:?}{}", alone, if alone == obs[i] { "" } else { "   <-- differs" });
    }
}
