//! C01: decoding never crashes or hangs. Bounded-exhaustive token/byte enumeration executed in
//! isolated single-threaded worker processes (journal in shared memory, watchdog, address-space cap).

use crate::bits::{bits_of, hex, BitWriter, Lcg};
use crate::evidence::{catch, panic_sig, verif_root, Report, Tier};
use crate::refhdr::*;
use crate::syntax::*;
use crate::tables::*;
use crate::util::*;
use h263_rs::H263State;
use serde_json::{json, Value};
use std::io::Write;
use std::sync::Arc;

const SLOT: usize = 8; // u64 words per worker in the shared journal
const MAX_PIXELS: u64 = 1 << 22;

// ------------------------------------------------------------------------------------------------
// declared-size pre-filter (own header model; exact, not by catching allocation failures)
// ------------------------------------------------------------------------------------------------

/// Largest picture size a header in `bytes` can declare, looking at both start-code offsets the
/// decoder accepts on a fresh reader (0 and 1 bit of stuffing).
pub fn declared_pixels(bytes: &[u8], sorenson: bool) -> u64 {
    let bits = bits_of(&bytes[..bytes.len().min(16)]);
    let mut worst = 0u64;
    for k in 0..=1usize {
        if bits.len() < k + 17 || crate::bits::val_of(&bits[k..k + 17]) != 1 {
            continue;
        }
        let get = |from: usize, n: usize| -> Option<u64> {
            if from + n <= bits.len() {
                Some(crate::bits::val_of(&bits[from..from + n]))
            } else {
                None
            }
        };
        if sorenson {
            // PSC 17, version 5, TR 8, size code 3
            if let Some(code) = get(k + 30, 3) {
                if code == 1 {
                    if let (Some(w), Some(h)) = (get(k + 33, 16), get(k + 49, 16)) {
                        worst = worst.max(w * h);
                    }
                }
            }
        }
        // standard mode sizes are bounded by 2048 x 2044 < 2^22: never excluded
    }
    worst
}

// ------------------------------------------------------------------------------------------------
// worker side
// ------------------------------------------------------------------------------------------------

pub struct Sink {
    journal: *mut u64, // this worker's slot
    shard: usize,
    nshards: usize,
    only: Option<(u64, u64, u64)>,
    out: std::io::BufWriter<std::fs::File>,
    family: u64,
    block: u64,
    inner: u64,
    pub cases: u64,
    pub excluded: u64,
    pub with_header: u64,
    pub ok: u64,
    pub err: u64,
    resume_after: Option<(u64, u64, u64)>,
    pub per_family: Vec<(String, u64, f64)>,
    cached: Option<(u8, Vec<usize>, H263State)>,
    /// the case executed just before (same process, same thread): needed to replay failures that
    /// depend on state outside the decoder object
    prev: Option<(u8, Vec<Arc<Vec<u8>>>, Vec<u8>)>,
    emitted: std::collections::BTreeMap<String, u64>,
}

impl Sink {
    fn mine(&self, block: u64) -> bool {
        block as usize % self.nshards == self.shard
    }
    /// Begin a block; returns false if this worker does not own it.
    pub fn begin(&mut self, family: u64, block: u64) -> bool {
        self.family = family;
        self.block = block;
        self.inner = 0;
        if let Some((f, b, _)) = self.only {
            return f == family && b == block;
        }
        if let Some((f, b, _)) = self.resume_after {
            if (family, block) < (f, b) {
                return false;
            }
        }
        self.mine(block)
    }

    pub fn case(&mut self, opts: u8, hist: &[Arc<Vec<u8>>], input: &[u8], label: &dyn Fn() -> String) {
        let id = (self.family, self.block, self.inner);
        self.inner += 1;
        if let Some(o) = self.only {
            if o != id {
                return;
            }
        }
        if let Some(r) = self.resume_after {
            if id <= r {
                return;
            }
        }
        let sorenson = opts & 1 != 0;
        if declared_pixels(input, sorenson) > MAX_PIXELS || hist.iter().any(|h| declared_pixels(h, sorenson) > MAX_PIXELS) {
            self.excluded += 1;
            return;
        }
        // journal: what we are about to run
        unsafe {
            std::ptr::write_volatile(self.journal.add(0), id.0);
            std::ptr::write_volatile(self.journal.add(1), id.1);
            std::ptr::write_volatile(self.journal.add(2), id.2);
            let hb = std::ptr::read_volatile(self.journal.add(3));
            std::ptr::write_volatile(self.journal.add(3), hb + 1);
        }
        self.cases += 1;
        if declared_pixels(input, sorenson) > 0 || has_start_code(input) {
            self.with_header += 1;
        }
        let prev = self.prev.take();
        self.prev = Some((opts, hist.to_vec(), input.to_vec()));
        let replay = || -> Value {
            let mut steps: Vec<String> = hist.iter().map(|h| hex(h)).collect();
            steps.push(hex(input));
            let preceding = prev.as_ref().map(|(o, h, i)| {
                let mut st: Vec<String> = h.iter().map(|x| hex(x)).collect();
                st.push(hex(i));
                json!({"options": o, "steps": st})
            });
            json!({"kind": "decode", "options": opts, "steps": steps, "note": label(), "case_id": [id.0, id.1, id.2],
                   "preceding_case_same_thread": preceding})
        };
        // Reuse the decoder of the previous case when it has the same options and history and the
        // previous input was rejected without changing the (hooked) decoder state; a failed call
        // leaves the state as it was (that is C05's claim, checked there). A panic on a reused
        // decoder is re-run on a fresh one so the replay is faithful.
        let key: Vec<usize> = hist.iter().map(|h| Arc::as_ptr(h) as usize).collect();
        let reuse = matches!(&self.cached, Some((o, k, _)) if *o == opts && *k == key);
        let mut reused = reuse;
        let mut st = if reuse {
            self.cached.take().unwrap().2
        } else {
            self.cached = None;
            match self.fresh(opts, hist) {
                Ok(st) => st,
                Err(p) => {
                    self.emit(&panic_sig(&p), &format!("history step panicked: {p}"), replay());
                    return;
                }
            }
        };
        let state_before = st.verif_state();
        let mut outcome = decode_bytes(&mut st, input);
        if outcome.is_panic() && reused {
            reused = false;
            match self.fresh(opts, hist) {
                Ok(f) => {
                    st = f;
                    outcome = decode_bytes(&mut st, input);
                    if !outcome.is_panic() {
                        self.emit("C01/panic-only-after-rejected-inputs", &format!("{}: panicked on a decoder that had rejected other inputs before, but not on a fresh decoder with the same history (the preceding case is in the replay)", label()), replay());
                    }
                }
                Err(_) => return,
            }
        }
        let _ = reused;
        match outcome {
            Outcome::Panic(p) => {
                let what = format!("{}: decode_next_picture panicked: {p}", label());
                self.emit(&panic_sig(&p), &what, replay());
                return;
            }
            Outcome::Ok => self.ok += 1,
            Outcome::Err(_) => self.err += 1,
        }
        let keep = outcome.is_err() && st.verif_state() == state_before;
        // afterwards the most recent picture must be consistent with its own format()
        let chk = catch(|| match st.get_last_picture() {
            None => None,
            Some(p) => {
                let (y, cb, cr) = p.as_yuv();
                match p.format().into_width_and_height() {
                    None => Some("picture without dimensions".to_string()),
                    Some((w, h)) => {
                        let (w, h) = (w as usize, h as usize);
                        let c = ((w + 1) / 2) * ((h + 1) / 2);
                        if y.len() != w * h || cb.len() != c || cr.len() != c {
                            Some(format!("planes {}/{}/{} do not match format {w}x{h}", y.len(), cb.len(), cr.len()))
                        } else {
                            None
                        }
                    }
                }
            }
        });
        match chk {
            Err(p) => self.emit(&panic_sig(&p), &format!("{}: get_last_picture panicked: {p}", label()), replay()),
            Ok(Some(bad)) => self.emit("C01/inconsistent-picture", &format!("{}: {bad}", label()), replay()),
            Ok(None) => {
                if keep {
                    self.cached = Some((opts, key, st));
                }
            }
        }
    }

    fn fresh(&self, opts: u8, hist: &[Arc<Vec<u8>>]) -> Result<H263State, String> {
        let mut st = H263State::new(options_from_bits(opts));
        for h in hist {
            if let Outcome::Panic(p) = decode_bytes(&mut st, h) {
                return Err(p);
            }
        }
        Ok(st)
    }

    fn emit(&mut self, sig: &str, what: &str, replay: Value) {
        let n = self.emitted.entry(sig.to_string()).or_insert(0);
        *n += 1;
        if *n > 3 {
            return; // counted; the totals are written with the statistics
        }
        let line = json!({"sig": sig, "what": what, "replay": replay});
        let _ = writeln!(self.out, "{line}");
        let _ = self.out.flush();
    }
}

fn has_start_code(b: &[u8]) -> bool {
    b.len() >= 3 && b[0] == 0 && b[1] == 0 && (b[2] & 0x80 != 0 || (b[2] & 0xC0 == 0x40))
}

fn set_limits() {
    unsafe {
        let lim = libc::rlimit { rlim_cur: 3 << 30, rlim_max: 3 << 30 };
        libc::setrlimit(libc::RLIMIT_AS, &lim);
    }
}

fn map_journal(path: &str, len: usize) -> *mut u64 {
    use std::os::unix::io::AsRawFd;
    let f = std::fs::OpenOptions::new().read(true).write(true).open(path).expect("journal file");
    let p = unsafe { libc::mmap(std::ptr::null_mut(), len, libc::PROT_READ | libc::PROT_WRITE, libc::MAP_SHARED, f.as_raw_fd(), 0) };
    assert!(p != libc::MAP_FAILED, "mmap journal");
    p as *mut u64
}

/// `vcheck crash-worker <journal> <shard> <nshards> <tier> <outfile> [only f b i | after f b i]`
pub fn worker_entry(args: &[String]) -> i32 {
    let journal_path = &args[0];
    let shard: usize = args[1].parse().unwrap();
    let nshards: usize = args[2].parse().unwrap();
    let tier = if args[3] == "thorough" { Tier::Thorough } else { Tier::Quick };
    let outfile = &args[4];
    let mut only = None;
    let mut resume_after = None;
    if args.len() >= 9 {
        let t = (args[6].parse().unwrap(), args[7].parse().unwrap(), args[8].parse().unwrap());
        if args[5] == "only" {
            only = Some(t);
        } else {
            resume_after = Some(t);
        }
    }
    set_limits();
    let base = map_journal(journal_path, nshards * SLOT * 8);
    let out = std::fs::OpenOptions::new().create(true).append(true).open(outfile).expect("worker output");
    let mut sink = Sink {
        journal: unsafe { base.add(shard * SLOT) },
        shard,
        nshards,
        only,
        out: std::io::BufWriter::new(out),
        family: 0,
        block: 0,
        inner: 0,
        cases: 0,
        excluded: 0,
        with_header: 0,
        ok: 0,
        err: 0,
        resume_after,
        per_family: vec![],
        cached: None,
        prev: None,
        emitted: Default::default(),
    };
    families(tier, &mut sink);
    let line = json!({"stats": {"cases": sink.cases, "excluded_oversize": sink.excluded, "with_start_code": sink.with_header, "ok": sink.ok, "err": sink.err, "per_family": sink.per_family, "violations_by_signature": sink.emitted}});
    let _ = writeln!(sink.out, "{line}");
    let _ = sink.out.flush();
    unsafe {
        std::ptr::write_volatile(sink.journal.add(4), 1); // done
    }
    0
}

// ------------------------------------------------------------------------------------------------
// case families
// ------------------------------------------------------------------------------------------------

fn b(s: &str) -> Vec<bool> {
    s.chars().filter(|c| *c == '0' || *c == '1').map(|c| c == '1').collect()
}
fn code(c: (u32, u32)) -> Vec<bool> {
    (0..c.1).rev().map(|i| (c.0 >> i) & 1 == 1).collect()
}
fn cat(parts: &[&[bool]]) -> Vec<bool> {
    parts.iter().flat_map(|p| p.iter().copied()).collect()
}

#[derive(Clone, Copy, PartialEq, Eq, Debug)]
pub enum Stream {
    SorV0,
    SorV1,
    Std,
}
impl Stream {
    fn opts(self) -> Vec<u8> {
        match self {
            Stream::Std => vec![0, 2],
            _ => vec![1, 3],
        }
    }
}

/// Block-content letters (bits following the macroblock header) for a block expected to be coded.
fn block_letters(s: Stream, intra: bool) -> Vec<(&'static str, Vec<bool>)> {
    let dc = if intra { b("01000000") } else { vec![] };
    let esc = code(TCOEF_VLC[102]);
    let short_last = cat(&[&code(TCOEF_VLC[58]), &b("0")]); // last, run 0, level 1, +
    let short_more = cat(&[&code(TCOEF_VLC[0]), &b("1")]); // not last, run 0, level -1
    let mut v: Vec<(&'static str, Vec<bool>)> = vec![];
    let with_dc = |x: Vec<bool>| cat(&[&dc, &x]);
    v.push(("short-last", with_dc(short_last.clone())));
    v.push(("two-events", with_dc(cat(&[&short_more, &short_last]))));
    v.push(("dangling-not-last", with_dc(short_more.clone())));
    v.push(("invalid-tcoef", with_dc(b("0000000000000"))));
    let escf = |last: bool, run: u32, level: i32| -> Vec<bool> {
        let mut w = BitWriter::new();
        match s {
            Stream::SorV1 => {
                let wide = !(-64..=63).contains(&level);
                w.put(wide as u32, 1);
                w.put(last as u32, 1);
                w.put(run, 6);
                let width = if wide { 11 } else { 7 };
                w.put((level as u32) & ((1 << width) - 1), width);
            }
            _ => {
                w.put(last as u32, 1);
                w.put(run, 6);
                w.put((level as u32) & 0xFF, 8);
            }
        }
        cat(&[&esc, &bits_of(&w.bytes)[..w.nbits]])
    };
    let (maxl, minl) = if s == Stream::SorV1 { (1023, -1024) } else { (127, -128) };
    v.push(("escape-level-0", with_dc(escf(true, 0, 0))));
    v.push(("escape-max", with_dc(escf(true, 0, maxl))));
    v.push(("escape-min-forbidden", with_dc(escf(true, 0, minl))));
    v.push(("escape-neg-max", with_dc(escf(true, 5, -maxl))));
    if s == Stream::SorV1 {
        v.push(("escape7-max", with_dc(escf(true, 1, 63))));
        v.push(("escape7-min", with_dc(escf(true, 1, -64))));
    }
    v.push(("run-63-then-more", with_dc(cat(&[&escf(false, 63, 3), &short_last]))));
    v.push(("run-overflow-chain", with_dc(cat(&[&escf(false, 40, 2), &escf(false, 40, -2), &short_last]))));
    // accumulations inside one block: the position (and anything summed from runs or counted per
    // event) passes 255/256 and 512 before the event flagged LAST (longer ones: family "accumulate")
    for (name, k) in [("run-63-x4", 4usize), ("run-63-x5", 5), ("run-63-x9", 9)] {
        let mut x = vec![];
        for i in 0..k {
            x.extend(escf(false, 63, if i % 2 == 0 { 2 } else { -3 }));
        }
        x.extend(short_last.iter());
        v.push((name, with_dc(x)));
    }
    {
        let mut x = vec![];
        for _ in 0..70 {
            x.extend(short_more.iter());
        }
        x.extend(short_last.iter());
        v.push(("events-x70", with_dc(x)));
    }
    if intra {
        v.push(("intradc-0", cat(&[&b("00000000"), &short_last])));
        v.push(("intradc-128", cat(&[&b("10000000"), &short_last])));
        v.push(("intradc-255", cat(&[&b("11111111"), &short_last])));
    }
    v
}

/// Complete-macroblock letters for intra pictures.
pub fn letters_i(s: Stream) -> Vec<(String, Vec<bool>)> {
    let mut v: Vec<(String, Vec<bool>)> = vec![];
    let dc = b("01000000");
    let dcs6 = cat(&[&dc, &dc, &dc, &dc, &dc, &dc]);
    let cbpy_none = code(CBPY[0]);
    // default first
    v.push(("intra-dc-only".into(), cat(&[&code(MCBPC_I[0]), &cbpy_none, &dcs6])));
    let ev = cat(&[&code(TCOEF_VLC[58]), &b("0")]);
    // every MCBPC codeword as a complete macroblock
    for (i, c) in MCBPC_I.iter().enumerate().take(8) {
        let q = i >= 4;
        let cbpc = i % 4;
        let mut bits = cat(&[&code(*c), &cbpy_none]);
        if q {
            bits.extend(b(if i % 2 == 0 { "10" } else { "01" }));
        }
        for blk in 0..6 {
            bits.extend(dc.iter());
            if (blk == 4 && cbpc & 2 != 0) || (blk == 5 && cbpc & 1 != 0) {
                bits.extend(ev.iter());
            }
        }
        v.push((format!("mcbpc-i-{i}"), bits));
    }
    v.push(("stuffing".into(), code(MCBPC_I[8])));
    v.push(("invalid-mcbpc".into(), b("0000000000")));
    v.push(("zeros-13".into(), b("0000000000000")));
    v.push(("ones-8".into(), b("11111111")));
    // every CBPY codeword
    for (pat, c) in CBPY.iter().enumerate() {
        let mut bits = cat(&[&code(MCBPC_I[0]), &code(*c)]);
        for blk in 0..6 {
            bits.extend(dc.iter());
            if blk < 4 && (pat >> (3 - blk)) & 1 == 1 {
                bits.extend(ev.iter());
            }
        }
        v.push((format!("cbpy-{pat}"), bits));
    }
    v.push(("invalid-cbpy".into(), cat(&[&code(MCBPC_I[0]), &b("000000")])));
    for (n, dq) in [("dquant-minus2", "01"), ("dquant-plus2", "11")] {
        v.push((n.into(), cat(&[&code(MCBPC_I[4]), &cbpy_none, &b(dq), &dcs6])));
    }
    // block-level letters in block 0 (CBPY index 8 = only block 0 coded) and block 5 (cbpc 01)
    for (n, blk) in block_letters(s, true) {
        v.push((format!("blk0-{n}"), cat(&[&code(MCBPC_I[0]), &code(CBPY[8]), &blk, &dc, &dc, &dc, &dc, &dc])));
        v.push((format!("blk5-{n}"), cat(&[&code(MCBPC_I[1]), &cbpy_none, &dc, &dc, &dc, &dc, &dc, &blk])));
    }
    v
}

/// Complete-macroblock letters for predicted pictures.
pub fn letters_p(s: Stream) -> Vec<(String, Vec<bool>)> {
    let mut v: Vec<(String, Vec<bool>)> = vec![];
    let cod0 = b("0");
    let mv0 = b("1");
    let dc = b("01000000");
    let ev = cat(&[&code(TCOEF_VLC[58]), &b("0")]);
    let cbpy_none_inter = code(CBPY[15]); // pattern 1111 inverted = nothing coded
    let cbpy_none_intra = code(CBPY[0]);
    v.push(("inter-mv0".into(), cat(&[&cod0, &code(MCBPC_P[0]), &cbpy_none_inter, &mv0, &mv0])));
    v.push(("not-coded".into(), b("1")));
    for (i, c) in MCBPC_P.iter().enumerate() {
        if c.1 == 0 || i == 20 {
            continue;
        }
        let ty = i / 4;
        let cbpc = i % 4;
        let intra = ty == 1 || ty == 3;
        let q = ty == 2 || ty == 3 || ty == 6;
        let fourv = ty == 4 || ty == 6;
        let mut bits = cat(&[&cod0, &code(*c), if intra { &cbpy_none_intra } else { &cbpy_none_inter }]);
        if q {
            bits.extend(b(if i % 2 == 0 { "00" } else { "11" }));
        }
        if !intra {
            for _ in 0..if fourv { 8 } else { 2 } {
                bits.extend(mv0.iter());
            }
        }
        for blk in 0..6 {
            if intra {
                bits.extend(dc.iter());
            }
            if (blk == 4 && cbpc & 2 != 0) || (blk == 5 && cbpc & 1 != 0) {
                bits.extend(ev.iter());
            }
        }
        v.push((format!("mcbpc-p-{i}"), bits));
    }
    v.push(("stuffing".into(), cat(&[&cod0, &code(MCBPC_P[20])])));
    v.push(("invalid-mcbpc".into(), cat(&[&cod0, &b("0000000000")])));
    v.push(("zeros-14".into(), b("00000000000000")));
    // motion vector letters
    let mvd = |val: i32| -> Vec<bool> {
        let a = val.unsigned_abs() as usize;
        let mut x = code(MVD_VLC[a]);
        if a > 0 {
            x.push(val < 0);
        }
        x
    };
    for (n, x, y) in [("mv+15.5", 31, 31), ("mv-16", -32, -32), ("mv-mixed", 31, -32), ("mv+0.5", 1, -1)] {
        v.push((n.into(), cat(&[&cod0, &code(MCBPC_P[0]), &cbpy_none_inter, &mvd(x), &mvd(y)])));
    }
    v.push(("invalid-mvd".into(), cat(&[&cod0, &code(MCBPC_P[0]), &cbpy_none_inter, &b("0000000000000")])));
    v.push(("4v-extreme".into(), cat(&[&cod0, &code(MCBPC_P[16]), &cbpy_none_inter, &mvd(31), &mvd(-32), &mvd(31), &mvd(-32), &mvd(-32), &mvd(31), &mvd(31), &mvd(31)])));
    v.push(("4v-all-min".into(), cat(&[&cod0, &code(MCBPC_P[16]), &cbpy_none_inter, &mvd(-32), &mvd(-32), &mvd(-32), &mvd(-32), &mvd(-32), &mvd(-32), &mvd(-32), &mvd(-32)])));
    v.push(("invalid-cbpy".into(), cat(&[&cod0, &code(MCBPC_P[0]), &b("000000")])));
    for (n, blk) in block_letters(s, false) {
        // inter macroblock with block 0 coded (CBPY pattern for inter is inverted: index 7 -> 1000)
        v.push((format!("blk0-{n}"), cat(&[&cod0, &code(MCBPC_P[0]), &code(CBPY[7]), &mv0, &mv0, &blk])));
        v.push((format!("blk5-{n}"), cat(&[&cod0, &code(MCBPC_P[1]), &cbpy_none_inter, &mv0, &mv0, &blk])));
    }
    for (n, blk) in block_letters(s, true).into_iter().filter(|x| x.0.starts_with("intradc") || x.0 == "escape-max") {
        v.push((format!("intra-blk0-{n}"), cat(&[&cod0, &code(MCBPC_P[4]), &code(CBPY[8]), &blk, &dc, &dc, &dc, &dc, &dc])));
    }
    v
}

fn stream_hdr(s: Stream, w: u16, h: u16, ptype: u8, q: u8, tr: u8) -> Hdr {
    match s {
        Stream::SorV0 => Hdr::S(SHdr { version: 0, tr, size: SSize::auto(w, h), ptype, deblock: false, q, pei: vec![] }),
        Stream::SorV1 => Hdr::S(SHdr { version: 1, tr, size: SSize::auto(w, h), ptype, deblock: true, q, pei: vec![] }),
        Stream::Std => Hdr::Std(StdHdr::custom(w, h, ptype != 0, tr, q)),
    }
}

fn valid_i(s: Stream, w: u16, h: u16, tr: u8) -> Vec<u8> {
    let hdr = stream_hdr(s, w, h, 0, 7, tr);
    encode_bytes(&super::inter::noise_intra(hdr, 5))
}
fn valid_p(s: Stream, w: u16, h: u16, ptype: u8, tr: u8) -> Vec<u8> {
    let (mbw, mbh) = mb_grid(w, h);
    let mbs = (0..mbw * mbh).map(|i| if i % 3 == 2 { Mb::NotCoded } else { Mb::inter(((i % 5) as i8 - 2, (i % 3) as i8 - 1)) }).collect();
    encode_bytes(&Pic { hdr: stream_hdr(s, w, h, ptype, 7, tr), mbs })
}

/// Prior-call histories: fresh, after pictures of several sizes, after P / D, after a rejected call.
fn histories(s: Stream, full: bool) -> Vec<(String, Vec<Arc<Vec<u8>>>)> {
    let a = |v: Vec<u8>| Arc::new(v);
    let mut h: Vec<(String, Vec<Arc<Vec<u8>>>)> = vec![("fresh".into(), vec![])];
    h.push(("after-I16".into(), vec![a(valid_i(s, 16, 16, 0))]));
    h.push(("after-I32x32".into(), vec![a(valid_i(s, 32, 32, 0))]));
    if full {
        h.push(("after-I48x32".into(), vec![a(valid_i(s, 48, 32, 0))]));
        if s != Stream::Std {
            h.push(("after-I17x3".into(), vec![a(valid_i(s, 17, 3, 0))]));
            h.push(("after-I16-D16".into(), vec![a(valid_i(s, 16, 16, 0)), a(valid_p(s, 16, 16, 2, 1))]));
            h.push(("after-I32-D32(same-tr)".into(), vec![a(valid_i(s, 32, 32, 4)), a(valid_p(s, 32, 32, 2, 4))]));
        }
        h.push(("after-I16-P16".into(), vec![a(valid_i(s, 16, 16, 0)), a(valid_p(s, 16, 16, 1, 1))]));
        h.push(("after-I16-I32".into(), vec![a(valid_i(s, 16, 16, 0)), a(valid_i(s, 32, 32, 1))]));
        h.push(("after-rejected".into(), vec![a(vec![0, 0, 0x80, 0xFF, 0xFF, 0xFF])]));
        h.push(("after-I32-rejected".into(), vec![a(valid_i(s, 32, 32, 0)), a(vec![0x12, 0x34])]));
    }
    h
}

fn put_letters(hdr: &Hdr, seq: &[&Vec<bool>], tail: usize) -> Vec<u8> {
    let mut w = BitWriter::new();
    hdr.put(&mut w);
    for l in seq {
        w.put_bits(l);
    }
    let mut bytes = w.bytes;
    match tail {
        0 => {}
        1 => bytes.extend_from_slice(&[0x00, 0x00, 0x80, 0x02]), // a following start code
        2 => bytes.extend_from_slice(&[0xFF, 0xFF, 0xFF]),
        _ => bytes.push(0x00),
    }
    bytes
}

/// family 1: token sequences with at most `d` non-default letters, lengths 0..=capacity+2
fn family_grammar(tier: Tier, sink: &mut Sink) {
    let mut block = 0u64;
    for s in [Stream::SorV0, Stream::SorV1, Stream::Std] {
        for ptype in [0u8, 1, 2] {
            if ptype == 2 && s == Stream::Std {
                continue;
            }
            let letters = if ptype == 0 { letters_i(s) } else { letters_p(s) };
            let sizes: &[(u16, u16)] = if tier.thorough() { &[(16, 16), (32, 16), (32, 32), (48, 32), (20, 4)] } else { &[(16, 16), (32, 16), (20, 4)] };
            for &(w, h) in sizes {
                let cap = mb_grid(w, h).0 * mb_grid(w, h).1;
                let hists = histories(s, tier.thorough() || cap <= 2);
                let maxd = if tier.thorough() { if cap <= 2 { 3 } else { 2 } } else if cap <= 2 { 2 } else { 1 };
                for q in [1u8, 31] {
                    let hdr = stream_hdr(s, w, h, ptype, q, 9);
                    for (hname, hist) in &hists {
                        for &opts in &s.opts() {
                            for len in 0..=cap + 2 {
                                // one block per (…, len): owned by one worker
                                let mine = sink.begin(1, block);
                                block += 1;
                                if !mine {
                                    continue;
                                }
                                let deflt = &letters[0].1;
                                let mut seq: Vec<&Vec<bool>> = vec![deflt; len];
                                let lab = |desc: String| format!("grammar {s:?} type {ptype} {w}x{h} q={q} {hname} opts={opts} len={len}: {desc}");
                                for tail in 0..3usize {
                                    let bytes = put_letters(&hdr, &seq, tail);
                                    sink.case(opts, hist, &bytes, &|| lab(format!("all default, tail {tail}")));
                                }
                                for i in 0..len {
                                    for (li, l) in letters.iter().enumerate().skip(1) {
                                        seq[i] = &l.1;
                                        for tail in 0..2usize {
                                            let bytes = put_letters(&hdr, &seq, tail);
                                            sink.case(opts, hist, &bytes, &|| lab(format!("position {i} = {}, tail {tail}", l.0)));
                                        }
                                        if maxd >= 2 && q == 31 && (opts == 1 || opts == 0) {
                                            for j in i + 1..len {
                                                // second deviation: a reduced alphabet (every third letter) keeps d=2 affordable
                                                for (lj, l2) in letters.iter().enumerate().skip(1) {
                                                    if (li + lj) % 3 != 0 && !tier.thorough() {
                                                        continue;
                                                    }
                                                    seq[j] = &l2.1;
                                                    let bytes = put_letters(&hdr, &seq, 0);
                                                    sink.case(opts, hist, &bytes, &|| lab(format!("positions {i},{j} = {}, {}", l.0, l2.0)));
                                                    if maxd >= 3 && hname == "after-I16" || maxd >= 3 && hname == "fresh" {
                                                        // third deviation (pictures of at most two macroblocks, two histories)
                                                        for k in j + 1..len {
                                                            for (lk, l3) in letters.iter().enumerate().skip(1) {
                                                                if (li + lj + lk) % 2 != 0 {
                                                                    continue;
                                                                }
                                                                seq[k] = &l3.1;
                                                                let bytes = put_letters(&hdr, &seq, 0);
                                                                sink.case(opts, hist, &bytes, &|| lab(format!("positions {i},{j},{k} = {}, {}, {}", l.0, l2.0, l3.0)));
                                                            }
                                                            seq[k] = deflt;
                                                        }
                                                    }
                                                }
                                                seq[j] = deflt;
                                            }
                                        }
                                    }
                                    seq[i] = deflt;
                                }
                            }
                        }
                    }
                }
            }
        }
    }
}

/// header alphabet: (label, options, bytes of header only as a bit writer)
fn header_alphabet() -> Vec<(String, Stream, BitWriter, bool)> {
    // last field: is the following macroblock layer an intra one?
    let mut v: Vec<(String, Stream, BitWriter, bool)> = vec![];
    let mut push_s = |name: String, h: SHdr| {
        let mut w = BitWriter::new();
        h.put(&mut w);
        v.push((name, if h.version == 1 { Stream::SorV1 } else { Stream::SorV0 }, w, h.ptype == 0));
    };
    let sizes: Vec<(&str, SSize)> = vec![
        ("0x0", SSize::Custom8(0, 0)),
        ("0x16", SSize::Custom8(0, 16)),
        ("16x0", SSize::Custom8(16, 0)),
        ("1x1", SSize::Custom8(1, 1)),
        ("15x17", SSize::Custom8(15, 17)),
        ("255x255", SSize::Custom8(255, 255)),
        ("16bit-0x0", SSize::Custom16(0, 0)),
        ("16bit-65535x1", SSize::Custom16(65535, 1)),
        ("16bit-1x65535", SSize::Custom16(1, 65535)),
        ("16bit-1024x512", SSize::Custom16(1024, 512)),
        ("16bit-16x16", SSize::Custom16(16, 16)),
        ("code2", SSize::Code(2)),
        ("code4", SSize::Code(4)),
        ("code6", SSize::Code(6)),
        ("code7-reserved", SSize::Code(7)),
    ];
    for (sn, sz) in &sizes {
        for ptype in 0..4u8 {
            for version in [0u8, 1, 2, 31] {
                if version >= 2 && ptype > 1 {
                    continue;
                }
                for q in [0u8, 1, 31] {
                    if q == 0 && ptype > 1 {
                        continue;
                    }
                    push_s(format!("sorenson v{version} {sn} type{ptype} q{q}"), SHdr { version, tr: 3, size: sz.clone(), ptype, deblock: ptype % 2 == 1, q, pei: if q == 31 { vec![0xAA, 0x55] } else { vec![] } });
                }
            }
        }
    }
    let mut push_std = |name: String, h: StdHdr, scal: bool| {
        let mut w = BitWriter::new();
        h.put(&mut w, scal, 0);
        let intra = match &h.plus {
            None => !h.inter,
            Some(p) => p.mpp_type == 0,
        };
        v.push((name, Stream::Std, w, intra));
    };
    for srcfmt in 0..7u8 {
        for low in [0u8, 16, 1, 17, 8, 31] {
            let mut h = StdHdr::baseline(srcfmt, low & 16 != 0, 5, 1 + (low % 31));
            h.umv = low & 8 != 0;
            h.sac = low & 4 != 0;
            h.ap = low & 2 != 0;
            h.pb = low & 1 != 0;
            push_std(format!("ptype srcfmt{srcfmt} low{low:05b}"), h, false);
        }
    }
    for (w, hh) in [(16u16, 16u16), (4, 4), (352, 288), (8, 0)] {
        for ty in 0..8u8 {
            for modes in [0u16, 0b1000000000, 0b0000000001, 0b0000100000 << 1, 0b0000001000 << 1, 1023] {
                let mut h = StdHdr::custom(w.max(4), 4, ty == 1, 5, 9);
                {
                    let p = h.plus.as_mut().unwrap();
                    p.cpfmt.pwi = w / 4 - 1;
                    p.cpfmt.phi = hh / 4;
                    p.mpp_type = ty;
                    p.opp.modes = modes;
                    p.uui = 2;
                }
                push_std(format!("plusptype {w}x{hh} type{ty} modes{modes:010b}"), h.clone(), false);
                if modes == 0 {
                    push_std(format!("plusptype+scal {w}x{hh} type{ty}"), h, true);
                }
            }
        }
    }
    // each fixed marker wrong once, UFEP variants
    for k in 0..6 {
        let mut h = StdHdr::custom(16, 16, false, 5, 9);
        match k {
            0 => h.hi2 = 0,
            1 => h.plus.as_mut().unwrap().opp.marker = 0,
            2 => h.plus.as_mut().unwrap().mpp_marker = 0,
            3 => h.plus.as_mut().unwrap().cpfmt.marker = false,
            4 => h.plus.as_mut().unwrap().ufep = 0,
            _ => h.plus.as_mut().unwrap().ufep = 5,
        }
        push_std(format!("plusptype marker-variant {k}"), h, false);
    }
    v
}

/// family 2: header alphabet x short bodies x all histories x truncation at every byte
fn family_headers(tier: Tier, sink: &mut Sink) {
    let alpha = header_alphabet();
    let mut block = 0u64;
    for (name, s, hw, intra) in &alpha {
        let letters = if *intra { letters_i(*s) } else { letters_p(*s) };
        let hists = histories(*s, true);
        for (hname, hist) in &hists {
            let mine = sink.begin(2, block);
            block += 1;
            if !mine {
                continue;
            }
            for &opts in &s.opts() {
                // bodies: nothing, k default letters, one of each letter, raw tails
                let mut bodies: Vec<(String, Vec<bool>)> = vec![("empty".into(), vec![])];
                for k in 1..=3 {
                    bodies.push((format!("{k} default"), (0..k).flat_map(|_| letters[0].1.iter().copied()).collect()));
                }
                for l in letters.iter().skip(1) {
                    bodies.push((l.0.clone(), l.1.clone()));
                    if tier.thorough() {
                        bodies.push((format!("default+{}", l.0), cat(&[&letters[0].1, &l.1])));
                    }
                }
                for (bn, body) in &bodies {
                    let mut w = hw.clone();
                    w.put_bits(body);
                    let bytes = w.bytes.clone();
                    sink.case(opts, hist, &bytes, &|| format!("header [{name}] body [{bn}] {hname} opts={opts}"));
                    if bn == "empty" || bn == "1 default" {
                        // truncation at every byte
                        for cut in 0..bytes.len() {
                            sink.case(opts, hist, &bytes[..cut], &|| format!("header [{name}] body [{bn}] cut to {cut} bytes {hname} opts={opts}"));
                        }
                    }
                }
            }
        }
    }
}

/// family 3: every single-bit flip and single-byte substitution of valid base pictures
fn family_corruption(tier: Tier, sink: &mut Sink) {
    let mut bases: Vec<(String, Stream, Vec<Arc<Vec<u8>>>, Vec<u8>)> = vec![];
    for s in [Stream::SorV0, Stream::SorV1, Stream::Std] {
        for &(w, h) in &[(16u16, 16u16), (32, 16), (48, 32)] {
            if (w, h) == (48, 32) && !tier.thorough() {
                continue;
            }
            let i = valid_i(s, w, h, 0);
            bases.push((format!("{s:?} I {w}x{h}"), s, vec![], i.clone()));
            bases.push((format!("{s:?} I {w}x{h} after I"), s, vec![Arc::new(i.clone())], valid_i(s, w, h, 1)));
            bases.push((format!("{s:?} P {w}x{h}"), s, vec![Arc::new(i.clone())], valid_p(s, w, h, 1, 1)));
            if s != Stream::Std {
                bases.push((format!("{s:?} D {w}x{h}"), s, vec![Arc::new(i.clone())], valid_p(s, w, h, 2, 1)));
            }
            // a predicted picture with coded residuals and four-vector macroblocks
            let (mbw, mbh) = mb_grid(w, h);
            let specs: Vec<super::inter::Spec> = (0..mbw * mbh)
                .map(|k| match k % 4 {
                    0 => super::inter::Spec::Inter4V([(3, -5), (-7, 2), (10, 9), (-12, -1)], true),
                    1 => super::inter::Spec::Intra,
                    2 => super::inter::Spec::Inter((-6, 4), true),
                    _ => super::inter::Spec::NotCoded,
                })
                .collect();
            let mut p = Pic { hdr: stream_hdr(s, w, h, 1, 6, 2), mbs: super::inter::mbs_for(&specs, mbw, s == Stream::SorV1, true) };
            super::inter::fix_last_flags(&mut p);
            bases.push((format!("{s:?} P-rich {w}x{h}"), s, vec![Arc::new(i)], encode_bytes(&p)));
        }
    }
    let mut block = 0u64;
    for (name, s, hist, bytes) in &bases {
        for &opts in &s.opts() {
            // blocks of 8 byte positions
            for chunk in 0..(bytes.len() + 7) / 8 {
                let mine = sink.begin(3, block);
                block += 1;
                if !mine {
                    continue;
                }
                for pos in chunk * 8..(chunk * 8 + 8).min(bytes.len()) {
                    for v in 0..=255u8 {
                        if v == bytes[pos] {
                            continue;
                        }
                        let mut m = bytes.clone();
                        m[pos] = v;
                        sink.case(opts, hist, &m, &|| format!("corruption of [{name}] opts={opts}: byte {pos} {:02x} -> {v:02x}", bytes[pos]));
                    }
                    // deletion and duplication of the byte
                    let mut m = bytes.clone();
                    m.remove(pos);
                    sink.case(opts, hist, &m, &|| format!("corruption of [{name}] opts={opts}: byte {pos} deleted"));
                    let mut m = bytes.clone();
                    m.insert(pos, bytes[pos]);
                    sink.case(opts, hist, &m, &|| format!("corruption of [{name}] opts={opts}: byte {pos} duplicated"));
                }
            }
        }
    }
}

/// family 8 (thorough): double corruption of tiny base pictures: every adjacent byte pair over all
/// 65536 values, and every pair of positions over a 16-value alphabet
fn family_double_corruption(tier: Tier, sink: &mut Sink) {
    if !tier.thorough() {
        return;
    }
    let mut block = 0u64;
    let alpha: [u8; 16] = [0x00, 0xFF, 0x80, 0x01, 0x7F, 0x40, 0x20, 0x10, 0x08, 0x04, 0x02, 0xFE, 0xAA, 0x55, 0xC0, 0x03];
    for s in [Stream::SorV0, Stream::SorV1, Stream::Std] {
        let i = valid_i(s, 16, 16, 0);
        let hist = vec![Arc::new(i.clone())];
        let mut bases: Vec<(String, Vec<Arc<Vec<u8>>>, Vec<u8>)> = vec![(format!("{s:?} P 16x16"), hist.clone(), valid_p(s, 16, 16, 1, 1))];
        let tiny = encode_bytes(&Pic { hdr: stream_hdr(s, 16, 16, 0, 9, 2), mbs: vec![Mb::intra_dc([60, 70, 80, 90, 100, 110])] });
        bases.push((format!("{s:?} I 16x16 dc-only"), vec![], tiny.clone()));
        bases.push((format!("{s:?} I 16x16 dc-only after I"), hist.clone(), tiny));
        for (name, hist, bytes) in &bases {
            let opts = s.opts()[0];
            for p in 0..bytes.len() {
                let mine = sink.begin(8, block);
                block += 1;
                if !mine {
                    continue;
                }
                if p + 1 < bytes.len() {
                    for v in 0..65536u32 {
                        let mut m = bytes.clone();
                        m[p] = (v >> 8) as u8;
                        m[p + 1] = v as u8;
                        sink.case(opts, hist, &m, &|| format!("double corruption of [{name}]: bytes {p},{} -> {v:04x}", p + 1));
                    }
                }
                for q in p + 2..bytes.len() {
                    for &a in &alpha {
                        for &b2 in &alpha {
                            let mut m = bytes.clone();
                            m[p] = a;
                            m[q] = b2;
                            sink.case(opts, hist, &m, &|| format!("double corruption of [{name}]: byte {p} -> {a:02x}, byte {q} -> {b2:02x}"));
                        }
                    }
                }
            }
        }
    }
}

/// family 4: raw byte strings: all strings up to n bytes alone, and all 2-byte strings after each header
fn family_raw(tier: Tier, sink: &mut Sink) {
    let mut block = 0u64;
    let hist_sets: Vec<(u8, Vec<Arc<Vec<u8>>>)> = vec![
        (1, vec![]),
        (0, vec![]),
        (3, vec![Arc::new(valid_i(Stream::SorV0, 16, 16, 0))]),
        (2, vec![Arc::new(valid_i(Stream::Std, 16, 16, 0))]),
    ];
    for (opts, hist) in &hist_sets {
        for b0 in 0..=255u32 {
            let mine = sink.begin(4, block);
            block += 1;
            if !mine {
                continue;
            }
            if b0 == 0 {
                sink.case(*opts, hist, &[], &|| format!("raw: empty input opts={opts}"));
            }
            sink.case(*opts, hist, &[b0 as u8], &|| format!("raw: [{b0:02x}] opts={opts}"));
            for b1 in 0..=255u32 {
                sink.case(*opts, hist, &[b0 as u8, b1 as u8], &|| format!("raw: [{b0:02x} {b1:02x}] opts={opts}"));
                if tier.thorough() && hist.is_empty() {
                    for b2 in 0..=255u32 {
                        sink.case(*opts, hist, &[b0 as u8, b1 as u8, b2 as u8], &|| format!("raw: [{b0:02x} {b1:02x} {b2:02x}] opts={opts}"));
                    }
                }
            }
        }
    }
    // all two-byte strings after representative headers that declare a small picture
    let alpha = header_alphabet();
    let mut k = 0usize;
    for (name, s, hw, _) in alpha.iter() {
        let sor = *s != Stream::Std;
        let small = {
            let mut probe = hw.clone();
            probe.put(0, 16);
            // small = parses and allocates little: decided with the pre-filter's own size parser for
            // Sorenson; standard-mode headers of the alphabet are small except the CIF ones
            let px = declared_pixels(&probe.bytes, sor);
            px <= 4096 && !name.contains("352x288") && !name.contains("code2") && !name.contains("code4") && !name.contains("code6") && !name.contains("1024") && !name.contains("255x255") && !name.contains("65535")
        };
        if !small {
            continue;
        }
        k += 1;
        if (!tier.thorough() && k % 8 != 0) || (tier.thorough() && k % 2 != 0) {
            continue;
        }
        let hists = histories(*s, false);
        for (hname, hist) in &hists {
            for hi in 0..16u32 {
                let mine = sink.begin(4, block);
                block += 1;
                if !mine {
                    continue;
                }
                let opts = s.opts()[0];
                for lo in 0..4096u32 {
                    let v = (hi << 12) | lo;
                    let mut w = hw.clone();
                    w.put(v, 16);
                    sink.case(opts, hist, &w.bytes, &|| format!("header [{name}] + raw {v:04x} {hname}"));
                }
            }
        }
    }
    // labelled sampling: seeded random strings of 4..64 bytes (NOT what the verdict rests on)
    let mut rng = Lcg::new(crate::evidence::seed() ^ 0xC01);
    let n = if tier.thorough() { 400_000 } else { 40_000 };
    for chunk in 0..n / 1000 {
        let mine = sink.begin(5, chunk as u64);
        // the generator must advance identically in every worker
        for _ in 0..1000 {
            let len = 4 + rng.below(61) as usize;
            let mut bytes: Vec<u8> = (0..len).map(|_| rng.below(256) as u8).collect();
            if rng.below(4) != 0 {
                bytes[0] = 0;
                bytes[1] = 0;
                bytes[2] = 0x80 | (bytes[2] & 0x7F);
            }
            let opts = rng.below(4) as u8;
            if mine {
                sink.case(opts, &[], &bytes, &|| format!("sampled random string of {len} bytes opts={opts}"));
            }
        }
    }
}

/// family 6: standard-mode unrestricted motion vectors (Table D.3 codes up to +-4095) accumulating
fn family_umv(tier: Tier, sink: &mut Sink) {
    let _ = tier;
    let mut block = 0u64;
    let umv_code = |val: i32| -> Vec<bool> {
        if val == 0 {
            return b("1");
        }
        let a = val.unsigned_abs();
        let nbits = 32 - a.leading_zeros() - 1; // data bits below the leading one
        let mut out = b("0");
        for i in (0..nbits).rev() {
            out.push((a >> i) & 1 == 1);
            out.push(true);
        }
        out.push(val < 0);
        out.push(false);
        out
    };
    // (small pictures, then one picture in every size class of Tables D.1 / D.2 and at the largest
    // width and height the custom picture format can express)
    for (w, h) in [(64u16, 16u16), (160, 16), (32, 32), (16, 16), (356, 16), (708, 16), (1412, 16), (1764, 16), (2048, 16), (16, 292), (16, 580), (16, 1156), (16, 1400), (16, 2044)] {
        for uui in [1u8, 2] {
            for ufep0_after in [false] {
                let _ = ufep0_after;
                let mut hd = StdHdr::custom(w, h, true, 3, 5);
                {
                    let p = hd.plus.as_mut().unwrap();
                    p.opp.modes = 0b1000000000;
                    p.uui = uui;
                }
                let reference = valid_i(Stream::Std, w, h, 0);
                let hist = vec![Arc::new(reference)];
                let mine = sink.begin(6, block);
                block += 1;
                if !mine {
                    continue;
                }
                let vals = [0i32, 1, -1, 31, -32, 63, -64, 2047, -2048, 4095, -4095, 4096];
                let (mbw, mbh) = mb_grid(w, h);
                for &vx in &vals {
                    for &vy in &vals {
                        for fourv in [false, true] {
                            for n in [1usize, 2, mbw * mbh] {
                                let mut wr = BitWriter::new();
                                hd.put(&mut wr, false, 0);
                                for _ in 0..n {
                                    wr.put_bits(&b("0"));
                                    wr.put_bits(&code(MCBPC_P[if fourv { 16 } else { 0 }]));
                                    wr.put_bits(&code(CBPY[15]));
                                    for _ in 0..if fourv { 4 } else { 1 } {
                                        wr.put_bits(&umv_code(vx));
                                        wr.put_bits(&umv_code(vy));
                                    }
                                }
                                for opts in [0u8, 2] {
                                    if opts == 2 {
                                        continue; // scalability changes the header layout; covered by family 2
                                    }
                                    sink.case(opts, &hist, &wr.bytes, &|| format!("UMV {w}x{h} uui={uui} vectors ({vx},{vy}) 4v={fourv} x{n} macroblocks"));
                                }
                            }
                        }
                    }
                }
            }
        }
    }
}

/// family 9: long accumulations inside one block (positions / event counts beyond 2^8, 2^12, 2^16)
fn family_accumulate(tier: Tier, sink: &mut Sink) {
    let _ = tier;
    let mut block = 0u64;
    for s in [Stream::SorV0, Stream::SorV1, Stream::Std] {
        let esc = code(TCOEF_VLC[102]);
        let short_last = cat(&[&code(TCOEF_VLC[58]), &b("0")]);
        let short_more = cat(&[&code(TCOEF_VLC[0]), &b("1")]);
        let escf = |run: u32, level: i32| -> Vec<bool> {
            let mut w = BitWriter::new();
            if s == Stream::SorV1 {
                w.put(0, 1);
                w.put(0, 1);
                w.put(run, 6);
                w.put((level as u32) & 0x7F, 7);
            } else {
                w.put(0, 1);
                w.put(run, 6);
                w.put((level as u32) & 0xFF, 8);
            }
            cat(&[&esc, &bits_of(&w.bytes)[..w.nbits]])
        };
        let mut bodies: Vec<(String, Vec<bool>)> = vec![];
        for k in [70usize, 300, 1100, 4200] {
            let mut x = vec![];
            for i in 0..k {
                x.extend(escf(63, if i % 2 == 0 { 2 } else { -3 }));
            }
            x.extend(short_last.iter());
            bodies.push((format!("{k} escapes of run 63"), x));
        }
        for k in [300usize, 4200, 70000] {
            let mut x = vec![];
            for _ in 0..k {
                x.extend(short_more.iter());
            }
            x.extend(short_last.iter());
            bodies.push((format!("{k} short events"), x));
        }
        let dc = b("01000000");
        let types: &[u8] = if s == Stream::Std { &[0, 1] } else { &[0, 1, 2] };
        // long runs of the elements that may repeat above the block layer: MCBPC stuffing codewords
        // in front of the first / the second macroblock and extra-information bytes in the header
        // (a repetition handled by recursion, or counted in a narrow type, shows at a length no
        // enumeration of short inputs contains)
        for &pt in types {
            for (hname, hist) in histories(s, false).into_iter().take(2) {
                for k in [300usize, 4200, 70000, 300000] {
                    for what in 0..3usize {
                        let mine = sink.begin(9, block);
                        block += 1;
                        if !mine {
                            continue;
                        }
                        let stuffing = if pt == 0 { b("000000001") } else { b("0000000001") };
                        let good_mb = if pt == 0 { cat(&[&code(MCBPC_I[0]), &code(CBPY[0]), &dc, &dc, &dc, &dc, &dc, &dc]) } else { b("1") };
                        let pei = if what == 2 { k.min(70000) } else { 2 };
                        let mut hd = stream_hdr(s, 32, 16, pt, 5, 2);
                        let extra: Vec<u8> = (0..pei).map(|i| (i as u8).wrapping_mul(37) ^ 0x5A).collect();
                        match &mut hd {
                            Hdr::S(h) => h.pei = extra,
                            Hdr::Std(h) => h.pei = extra,
                        }
                        let mut wr = encode(&Pic { hdr: hd, mbs: vec![] });
                        if what == 1 {
                            wr.put_bits(&good_mb);
                        }
                        if what < 2 {
                            let mut run = Vec::with_capacity(k * stuffing.len());
                            for _ in 0..k {
                                run.extend(stuffing.iter());
                            }
                            wr.put_bits(&run);
                        }
                        wr.put_bits(&good_mb);
                        if what != 1 {
                            wr.put_bits(&good_mb);
                        }
                        wr.put(0, 24);
                        sink.case(s.opts()[0], &hist, &wr.bytes, &|| format!("accumulate {s:?} type {pt} 32x16 {hname}: {}", ["run of stuffing codewords before the first macroblock", "run of stuffing codewords before the second macroblock", "run of extra-information bytes"][what]) + &format!(" ({k})"));
                    }
                }
            }
        }
        for &pt in types {
            for (hname, hist) in histories(s, false).into_iter().take(2) {
                for (bname, body) in &bodies {
                    let mine = sink.begin(9, block);
                    block += 1;
                    if !mine {
                        continue;
                    }
                    for two in [false, true] {
                        for blk5 in [false, true] {
                            let (w, h) = if two { (32u16, 16u16) } else { (16, 16) };
                            let mut wr = encode(&Pic { hdr: stream_hdr(s, w, h, pt, 5, 2), mbs: vec![] });
                            if two {
                                if pt == 0 {
                                    wr.put_bits(&cat(&[&code(MCBPC_I[0]), &code(CBPY[0]), &dc, &dc, &dc, &dc, &dc, &dc]));
                                } else {
                                    wr.put_bits(&b("1"));
                                }
                            }
                            let mb = if pt == 0 {
                                if blk5 {
                                    cat(&[&code(MCBPC_I[1]), &code(CBPY[0]), &dc, &dc, &dc, &dc, &dc, &dc, body])
                                } else {
                                    cat(&[&code(MCBPC_I[0]), &code(CBPY[8]), &dc, body, &dc, &dc, &dc, &dc, &dc])
                                }
                            } else if blk5 {
                                cat(&[&b("0"), &code(MCBPC_P[1]), &code(CBPY[15]), &b("1"), &b("1"), body])
                            } else {
                                cat(&[&b("0"), &code(MCBPC_P[0]), &code(CBPY[7]), &b("1"), &b("1"), body])
                            };
                            wr.put_bits(&mb);
                            wr.put(0, 24);
                            sink.case(s.opts()[0], &hist, &wr.bytes, &|| format!("accumulate {s:?} type {pt} {w}x{h} {hname}: {bname} in block {}", if blk5 { 5 } else { 0 }));
                        }
                    }
                }
            }
        }
    }
}

/// Sizes that collide in one derived quantity and differ in another: equal area / different shape,
/// equal luma count / different chroma count, equal chroma planes / different luma, equal
/// macroblock grid / different dimensions.
pub fn colliding_sizes(std: bool) -> Vec<(u16, u16)> {
    if std {
        vec![(32, 16), (16, 32), (64, 8), (8, 64), (16, 16), (12, 4), (4, 12), (24, 8), (8, 24), (20, 20), (32, 32)]
    } else {
        vec![(32, 16), (16, 32), (64, 8), (8, 64), (6, 2), (3, 4), (4, 3), (2, 6), (12, 1), (1, 12), (15, 16), (16, 16), (16, 15), (15, 15), (17, 17), (32, 32), (31, 18)]
    }
}

/// family 10: histories of picture sizes. Every ordered pair (A, B) of colliding sizes: pictures of
/// size A (I; I,P; I,D; I,I), then an I picture of size B, then a predicted, disposable or intra
/// picture of size B (whole, or cut after its first macroblock).
fn family_size_history(tier: Tier, sink: &mut Sink) {
    let _ = tier;
    let a = |v: Vec<u8>| Arc::new(v);
    let mut block = 0u64;
    for s in [Stream::SorV0, Stream::SorV1, Stream::Std] {
        let sizes = colliding_sizes(s == Stream::Std);
        for &(wa, ha) in &sizes {
            let mine = sink.begin(10, block);
            block += 1;
            if !mine {
                continue;
            }
            for &(wb, hb) in &sizes {
                let mut prefixes: Vec<(&str, Vec<Arc<Vec<u8>>>)> = vec![
                    ("I(A)", vec![a(valid_i(s, wa, ha, 0))]),
                    ("I(A),P(A)", vec![a(valid_i(s, wa, ha, 0)), a(valid_p(s, wa, ha, 1, 1))]),
                    ("I(A),I(A)", vec![a(valid_i(s, wa, ha, 0)), a(valid_i(s, wa, ha, 1))]),
                ];
                if s != Stream::Std {
                    prefixes.push(("I(A),D(A)", vec![a(valid_i(s, wa, ha, 0)), a(valid_p(s, wa, ha, 2, 1))]));
                }
                for (pname, pre) in prefixes {
                    let mut hist = pre.clone();
                    hist.push(a(valid_i(s, wb, hb, 2)));
                    let types: &[u8] = if s == Stream::Std { &[0, 1] } else { &[0, 1, 2] };
                    for &pt in types {
                        let whole = if pt == 0 { valid_i(s, wb, hb, 3) } else { valid_p(s, wb, hb, pt, 3) };
                        sink.case(s.opts()[0], &hist, &whole, &|| format!("size history {s:?}: {pname} with A={wa}x{ha}, I(B), then type-{pt} picture with B={wb}x{hb}"));
                        // directly after the pictures of size A (no I picture of size B in between)
                        sink.case(s.opts()[0], &pre, &whole, &|| format!("size history {s:?}: {pname} with A={wa}x{ha}, then type-{pt} picture with B={wb}x{hb}"));
                    }
                    // the size changes through an all-intra predicted / disposable picture (accepted without a
                    // reference of its size; a disposable one becomes the last picture but not the reference)
                    if pname == "I(A)" {
                        let (gw, gh) = mb_grid(wb, hb);
                        let types2: &[u8] = if s == Stream::Std { &[1] } else { &[1, 2] };
                        for &k2 in types2 {
                            let all_intra = encode_bytes(&Pic { hdr: stream_hdr(s, wb, hb, k2, 7, 5), mbs: (0..gw * gh).map(|i| Mb::intra_flat(50 + (i * 7 % 150) as u8)).collect() });
                            let mut h2 = pre.clone();
                            h2.push(a(all_intra));
                            for &pt in types {
                                let whole = if pt == 0 { valid_i(s, wb, hb, 6) } else { valid_p(s, wb, hb, pt, 6) };
                                sink.case(s.opts()[0], &h2, &whole, &|| format!("size history {s:?}: I with A={wa}x{ha}, all-intra type-{k2} picture with B={wb}x{hb}, then type-{pt} picture of size B"));
                            }
                            let cut = encode_bytes(&Pic { hdr: stream_hdr(s, wb, hb, 1, 7, 7), mbs: vec![] });
                            sink.case(s.opts()[0], &h2, &cut, &|| format!("size history {s:?}: I with A={wa}x{ha}, all-intra type-{k2} picture with B={wb}x{hb}, then a P header of size B without macroblocks"));
                        }
                    }
                    // header and first macroblock only
                    let (mbw, _) = mb_grid(wb, hb);
                    let _ = mbw;
                    let cut = encode_bytes(&Pic { hdr: stream_hdr(s, wb, hb, 1, 7, 4), mbs: vec![Mb::inter((1, -1))] });
                    sink.case(s.opts()[0], &hist, &cut, &|| format!("size history {s:?}: {pname} with A={wa}x{ha}, I(B), then a P picture with B={wb}x{hb} ending after its first macroblock"));
                }
            }
        }
    }
}

/// family 7: every motion-vector differential pair on single- and four-macroblock predicted pictures
fn family_vectors(tier: Tier, sink: &mut Sink) {
    let mut block = 0u64;
    let sizes: &[(u16, u16)] = if tier.thorough() { &[(16, 16), (17, 17), (8, 8), (1, 1), (32, 32), (20, 12), (48, 16)] } else { &[(16, 16), (17, 17), (1, 1), (32, 32)] };
    for s in [Stream::SorV0, Stream::Std] {
        for &(w, h) in sizes {
            if s == Stream::Std && (w % 4 != 0 || h % 4 != 0) {
                continue;
            }
            let hist = vec![Arc::new(valid_i(s, w, h, 0))];
            let (mbw, mbh) = mb_grid(w, h);
            for target in 0..(mbw * mbh).min(4) {
                for dx in -32..=31i8 {
                    let mine = sink.begin(7, block);
                    block += 1;
                    if !mine {
                        continue;
                    }
                    for dy in -32..=31i8 {
                        for fourv in [false, true] {
                            let mbs: Vec<Mb> = (0..mbw * mbh)
                                .map(|i| {
                                    if i != target {
                                        Mb::NotCoded
                                    } else if fourv {
                                        Mb::Coded { kind: Kind::Inter4V, dquant: 0, mvd: vec![(dx, dy), (dy, dx), (dx, dx), (dy, dy)], blocks: Default::default() }
                                    } else {
                                        Mb::inter((dx, dy))
                                    }
                                })
                                .collect();
                            let bytes = encode_bytes(&Pic { hdr: stream_hdr(s, w, h, 1, 5, 1), mbs });
                            sink.case(s.opts()[0], &hist, &bytes, &|| format!("vectors {s:?} {w}x{h} macroblock {target} mvd ({dx},{dy}) 4v={fourv}"));
                        }
                    }
                }
            }
        }
    }
}

pub fn families(tier: Tier, sink: &mut Sink) {
    let fams: [(&str, fn(Tier, &mut Sink)); 9] = [("grammar", family_grammar), ("headers", family_headers), ("corruption", family_corruption), ("raw", family_raw), ("umv", family_umv), ("vectors", family_vectors), ("double-corruption", family_double_corruption), ("accumulate", family_accumulate), ("size-history", family_size_history)];
    for (name, f) in fams {
        let (t0, c0) = (std::time::Instant::now(), sink.cases);
        f(tier, sink);
        sink.per_family.push((name.to_string(), sink.cases - c0, t0.elapsed().as_secs_f64()));
    }
}

// ------------------------------------------------------------------------------------------------
// parent side
// ------------------------------------------------------------------------------------------------

pub fn run(tier: Tier) -> Report {
    let rep = Report::new("C01", "crash", tier);
    let nworkers = std::thread::available_parallelism().map(|n| n.get()).unwrap_or(8).min(16);
    let dir = verif_root().join("target").join(format!("c01-{}", std::process::id()));
    let _ = std::fs::create_dir_all(&dir);
    let journal_path = dir.join("journal");
    std::fs::write(&journal_path, vec![0u8; nworkers * SLOT * 8]).expect("journal");
    let jp = journal_path.to_string_lossy().to_string();
    let base = map_journal(&jp, nworkers * SLOT * 8);
    let exe = std::env::current_exe().expect("current exe");
    let tier_s = tier.name().to_string();
    let spawn = |shard: usize, extra: &[String]| -> std::process::Child {
        let out = dir.join(format!("worker-{shard}.jsonl"));
        let mut c = std::process::Command::new(&exe);
        c.arg("crash-worker").arg(&jp).arg(shard.to_string()).arg(nworkers.to_string()).arg(&tier_s).arg(out);
        for e in extra {
            c.arg(e);
        }
        c.stdout(std::process::Stdio::null()).stderr(std::process::Stdio::null());
        c.spawn().expect("spawn worker")
    };
    let mut children: Vec<Option<std::process::Child>> = (0..nworkers).map(|s| Some(spawn(s, &[]))).collect();
    let mut last_hb: Vec<(u64, std::time::Instant)> = (0..nworkers).map(|_| (0, std::time::Instant::now())).collect();
    let mut machinery_error = false;
    let mut restarts = 0;
    let read_slot = |s: usize| -> [u64; 5] {
        let mut v = [0u64; 5];
        for (i, x) in v.iter_mut().enumerate() {
            *x = unsafe { std::ptr::read_volatile(base.add(s * SLOT + i)) };
        }
        v
    };
    loop {
        let mut alive = 0;
        for s in 0..nworkers {
            let status = match children[s].as_mut() {
                None => continue,
                Some(ch) => ch.try_wait().ok().flatten(),
            };
            let slot = read_slot(s);
            match status {
                Some(st) if st.success() && slot[4] == 1 => {
                    children[s] = None;
                }
                Some(st) => {
                    // died: the journal names the case it was running
                    let id = (slot[0], slot[1], slot[2]);
                    let how = format!("worker process ended with {st} while decoding");
                    confirm_and_report(&rep, &exe, &jp, &dir, nworkers, s, &tier_s, id, &how);
                    restarts += 1;
                    if restarts > 200 {
                        machinery_error = true;
                        children[s] = None;
                    } else {
                        children[s] = Some(spawn(s, &["after".into(), id.0.to_string(), id.1.to_string(), id.2.to_string()]));
                        last_hb[s] = (slot[3], std::time::Instant::now());
                    }
                }
                None => {
                    alive += 1;
                    if slot[3] != last_hb[s].0 {
                        last_hb[s] = (slot[3], std::time::Instant::now());
                    } else if last_hb[s].1.elapsed().as_secs() >= 30 && slot[3] > 0 {
                        // no progress for 30 s inside one decode: a hang
                        if let Some(ch) = children[s].as_mut() {
                            let _ = ch.kill();
                            let _ = ch.wait();
                        }
                        let id = (slot[0], slot[1], slot[2]);
                        confirm_and_report(&rep, &exe, &jp, &dir, nworkers, s, &tier_s, id, "no progress for 30 s inside one decode call (hang)");
                        children[s] = Some(spawn(s, &["after".into(), id.0.to_string(), id.1.to_string(), id.2.to_string()]));
                        last_hb[s] = (slot[3], std::time::Instant::now());
                    }
                }
            }
        }
        if alive == 0 && children.iter().all(|c| c.is_none()) {
            break;
        }
        std::thread::sleep(std::time::Duration::from_millis(50));
    }
    // merge worker outputs
    let (mut cases, mut excluded, mut with_hdr, mut ok, mut err) = (0u64, 0u64, 0u64, 0u64, 0u64);
    let mut fam: std::collections::BTreeMap<String, (u64, f64)> = Default::default();
    let mut sig_totals: std::collections::BTreeMap<String, u64> = Default::default();
    for s in 0..nworkers {
        let p = dir.join(format!("worker-{s}.jsonl"));
        let mut saw_stats = false;
        if let Ok(text) = std::fs::read_to_string(&p) {
            for line in text.lines() {
                if let Ok(v) = serde_json::from_str::<Value>(line) {
                    if let Some(st) = v.get("stats") {
                        saw_stats = true;
                        cases += st["cases"].as_u64().unwrap_or(0);
                        excluded += st["excluded_oversize"].as_u64().unwrap_or(0);
                        with_hdr += st["with_start_code"].as_u64().unwrap_or(0);
                        ok += st["ok"].as_u64().unwrap_or(0);
                        err += st["err"].as_u64().unwrap_or(0);
                        if let Some(m) = st["violations_by_signature"].as_object() {
                            for (k, v) in m {
                                *sig_totals.entry(k.clone()).or_insert(0u64) += v.as_u64().unwrap_or(0);
                            }
                        }
                        if let Some(pf) = st["per_family"].as_array() {
                            for e in pf {
                                let ent = fam.entry(e[0].as_str().unwrap_or("").to_string()).or_insert((0u64, 0f64));
                                ent.0 += e[1].as_u64().unwrap_or(0);
                                ent.1 += e[2].as_f64().unwrap_or(0.0);
                            }
                        }
                    } else if let Some(sig) = v.get("sig").and_then(|s| s.as_str()) {
                        rep.violation(sig, v["what"].as_str().unwrap_or("").to_string(), v["replay"].clone());
                    }
                }
            }
        }
        if !saw_stats {
            machinery_error = true;
            eprintln!("MACHINERY-ERROR: worker {s} did not finish");
        }
    }
    // add the cases that were only counted
    {
        let v = rep.violations.read().unwrap();
        for (sig, total) in &sig_totals {
            if let Some(e) = v.get(sig) {
                let have = e.1.load(std::sync::atomic::Ordering::Relaxed);
                if *total > have {
                    e.1.store(*total, std::sync::atomic::Ordering::Relaxed);
                }
            }
        }
    }
    let _ = std::fs::remove_dir_all(&dir);
    rep.add_transitions(cases);
    rep.add_states(cases);
    rep.add_nontrivial(with_hdr);
    rep.extra("excluded_oversize", json!(excluded));
    rep.extra("calls_returning_ok", json!(ok));
    rep.extra("calls_returning_err", json!(err));
    rep.extra("worker_processes", json!(nworkers));
    rep.extra("cases_and_cpu_seconds_per_family", json!(fam));
    rep.extra("worker_restarts", json!(restarts));
    rep.extra("sampled_random_strings_included_in_counts", json!(if tier.thorough() { 400_000 } else { 40_000 }));
    if machinery_error {
        rep.extra("machinery_error", json!(true));
        // make the exit code 2 via an empty exploration marker
        rep.states.store(0, std::sync::atomic::Ordering::Relaxed);
    }
    rep.set_rule(
        "decode_next_picture under catch_unwind (overflow checks on) in isolated single-threaded worker processes with a shared-memory journal, watchdog and address-space cap: (1) macroblock-token sequences of length 0..capacity+2 with at most d non-default letters (quick: d=2 for pictures of <= 2 macroblocks, d=1 otherwise; thorough: d=2 everywhere and d=3 for pictures of <= 2 macroblocks in two histories) over complete-macroblock alphabets (every MCBPC/CBPY codeword, stuffing, invalid prefixes, DQUANT, extreme/invalid MVDs, block letters: escapes 0/min/max per width, run overflow, INTRADC 0/128/255, invalid TCOEF) x 3 stream kinds x I/P/D x sizes x quantizers 1,31 x decoder histories x option sets x tails; (2) a header alphabet (zero/odd/huge/reserved sizes, all types, marker errors, PLUSPTYPE mode patterns) x bodies x histories, truncated at every byte; (3) every single-byte substitution, deletion and duplication of base pictures; (4) all byte strings of <= 2 (thorough 3) bytes alone and all 2-byte strings after headers; (6) unrestricted-motion-vector accumulations; (9) blocks whose escape runs / event counts accumulate past 2^8, 2^12 and 2^16; (10) size histories: every ordered pair (A, B) of 17 (standard mode: 11) sizes that collide in one derived quantity and differ in another (equal area / other shape, equal luma count / other chroma count, equal chroma planes, equal macroblock grid) as I(A) | I(A),P(A) | I(A),I(A) | I(A),D(A), then optionally I(B) - or an all-intra predicted / disposable picture of size B -, then an I, P or disposable picture of size B, whole or cut; (8, thorough) every adjacent byte pair over all 65536 values and every pair of positions over a 16-value alphabet on tiny base pictures; (7) every 64x64 differential pair (one- and four-vector) at every macroblock position of small predicted pictures; plus labelled random sampling; inputs declaring more than 2^22 pixels are excluded by an exact header pre-filter; non-trivial = inputs that begin with a start code",
    );
    rep.sample(json!({"family": "grammar", "case": "Sorenson v1 P 32x16 q=31 after [I 32x32]: [inter mv0, blk0 escape-max, inter mv0] + following start code"}));
    rep.sample(json!({"family": "headers", "case": "Sorenson v0 size 0x16 type 0, body = 1 default macroblock, after [I 16x16, D 16x16]"}));
    rep.sample(json!({"family": "corruption", "case": "H.263 P-rich 32x16: byte 9 0x4c -> 0xff"}));
    rep.assume("the three crates contain no unsafe code (checked below), so a run without panic/abort is memory-safe");
    let unsafe_count = count_unsafe();
    rep.extra("unsafe_blocks_in_repo_sources", json!(unsafe_count));
    rep
}

fn count_unsafe() -> i64 {
    fn walk(p: &std::path::Path, n: &mut i64) {
        if let Ok(rd) = std::fs::read_dir(p) {
            for e in rd.flatten() {
                let path = e.path();
                if path.is_dir() {
                    walk(&path, n);
                } else if path.extension().map(|x| x == "rs").unwrap_or(false) {
                    if let Ok(s) = std::fs::read_to_string(&path) {
                        *n += s.lines().filter(|l| !l.trim_start().starts_with("//") && (l.contains("unsafe {") || l.contains("unsafe fn") || l.contains("static mut"))).count() as i64;
                    }
                }
            }
        }
    }
    let mut n = 0;
    for c in ["h263/src", "yuv/src", "deblock/src"] {
        walk(&std::path::Path::new(&std::env::var("VERIF_REPO").unwrap_or_else(|_| "/repo".to_string())).join(c), &mut n);
    }
    n
}

#[allow(clippy::too_many_arguments)]
fn confirm_and_report(rep: &Report, exe: &std::path::Path, jp: &str, dir: &std::path::Path, nworkers: usize, shard: usize, tier: &str, id: (u64, u64, u64), how: &str) {
    // re-run that single case alone
    let out = dir.join(format!("confirm-{}-{}-{}.jsonl", id.0, id.1, id.2));
    let st = std::process::Command::new(exe)
        .arg("crash-worker")
        .arg(jp)
        .arg(shard.to_string())
        .arg(nworkers.to_string())
        .arg(tier)
        .arg(&out)
        .arg("only")
        .arg(id.0.to_string())
        .arg(id.1.to_string())
        .arg(id.2.to_string())
        .stdout(std::process::Stdio::null())
        .stderr(std::process::Stdio::null())
        .spawn()
        .and_then(|mut c| {
            // the confirmation run gets 60 s
            let t0 = std::time::Instant::now();
            loop {
                if let Some(s) = c.try_wait()? {
                    return Ok(Some(s));
                }
                if t0.elapsed().as_secs() > 60 {
                    let _ = c.kill();
                    let _ = c.wait();
                    return Ok(None);
                }
                std::thread::sleep(std::time::Duration::from_millis(20));
            }
        });
    let confirmed = match st {
        Ok(Some(s)) => !s.success(),
        Ok(None) => true,
        Err(_) => false,
    };
    rep.violation(
        &format!("C01/process-{}", if how.contains("hang") { "hang" } else { "abort" }),
        format!("case {id:?}: {how}; re-run alone: {}", if confirmed { "reproduced" } else { "did NOT reproduce (reported anyway)" }),
        json!({"kind": "crash-case", "case_id": [id.0, id.1, id.2], "how": how, "rerun": format!("vcheck crash-worker <journal> {shard} {nworkers} {tier} <out> only {} {} {}", id.0, id.1, id.2)}),
    );
}
