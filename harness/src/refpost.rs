//! Reference models for the post-processing crates: BT.601 conversion and the Annex J edge filter.

/// 16.16 fixed-point coefficients derived from the real BT.601 constants.
pub struct Bt601 {
    pub gray: i64,
    pub cr2r: i64,
    pub cr2g: i64,
    pub cb2g: i64,
    pub cb2b: i64,
}
impl Bt601 {
    pub fn new() -> Self {
        let r = |x: f64| (x * 65536.0).round() as i64;
        Bt601 {
            gray: r(255.0 / 219.0),
            cr2r: r(255.0 / 224.0 * 1.402),
            cr2g: r(-(255.0 / 224.0) * 1.402 * (0.299 / 0.587)),
            cb2g: r(-(255.0 / 224.0) * 1.772 * (0.114 / 0.587)),
            cb2b: r(255.0 / 224.0 * 1.772),
        }
    }
    /// fixed-point conversion with round-to-nearest (add half, arithmetic shift) and clamp
    pub fn conv(&self, y: u8, cb: u8, cr: u8) -> [u8; 4] {
        let y = y as i64 - 16;
        let cb = cb as i64 - 128;
        let cr = cr as i64 - 128;
        let f = |v: i64| ((v + 32768) >> 16).clamp(0, 255) as u8;
        [
            f(self.gray * y + self.cr2r * cr),
            f(self.gray * y + self.cr2g * cr + self.cb2g * cb),
            f(self.gray * y + self.cb2b * cb),
            255,
        ]
    }
    /// real-valued formula, clamped but not rounded
    pub fn real(y: u8, cb: u8, cr: u8) -> [f64; 3] {
        let y = (y as f64 - 16.0) * 255.0 / 219.0;
        let cb = (cb as f64 - 128.0) * 255.0 / 224.0;
        let cr = (cr as f64 - 128.0) * 255.0 / 224.0;
        let c = |v: f64| v.clamp(0.0, 255.0);
        [
            c(y + 1.402 * cr),
            c(y - 1.402 * (0.299 / 0.587) * cr - 1.772 * (0.114 / 0.587) * cb),
            c(y + 1.772 * cb),
        ]
    }
}

/// Table J.2/H.263: STRENGTH for QUANT 1..=31 (index 0 unused).
pub const TABLE_J2: [u8; 32] = [
    0, 1, 1, 2, 2, 3, 3, 4, 4, 4, 5, 5, 6, 6, 7, 7, 7, 8, 8, 8, 9, 9, 9, 10, 10, 10, 11, 11, 11, 12, 12, 12,
];

/// Annex J filter on four samples across a block edge; divisions truncate toward zero.
#[inline]
pub fn annex_j(a: u8, b: u8, c: u8, d: u8, strength: u8) -> [u8; 4] {
    let (a, b, c, d, s) = (a as i32, b as i32, c as i32, d as i32, strength as i32);
    let dd = (a - 4 * b + 4 * c - d) / 8;
    let ad = dd.abs();
    let d1 = dd.signum() * (ad - (2 * (ad - s)).max(0)).max(0);
    let lim = (d1 / 2).abs();
    let d2 = ((a - d) / 4).clamp(-lim, lim);
    [(a - d2) as u8, (b + d1).clamp(0, 255) as u8, (c - d1).clamp(0, 255) as u8, (d + d2) as u8]
}

/// Whole-image model: horizontal edges first, then vertical edges.
pub fn deblock_model(data: &[u8], width: usize, strength: u8) -> Vec<u8> {
    let mut img = data.to_vec();
    if width == 0 {
        return img;
    }
    let height = data.len() / width;
    let mut y = 8;
    while y + 1 < height {
        for x in 0..width {
            let i = |r: usize| r * width + x;
            let o = annex_j(img[i(y - 2)], img[i(y - 1)], img[i(y)], img[i(y + 1)], strength);
            img[i(y - 2)] = o[0];
            img[i(y - 1)] = o[1];
            img[i(y)] = o[2];
            img[i(y + 1)] = o[3];
        }
        y += 8;
    }
    let mut x = 8;
    while x + 1 < width {
        for r in 0..height {
            let i = |c: usize| r * width + c;
            let o = annex_j(img[i(x - 2)], img[i(x - 1)], img[i(x)], img[i(x + 1)], strength);
            img[i(x - 2)] = o[0];
            img[i(x - 1)] = o[1];
            img[i(x)] = o[2];
            img[i(x + 1)] = o[3];
        }
        x += 8;
    }
    img
}
