//! Header model: a description of every transmitted field of a Sorenson Spark / H.263 clause 5.1
//! picture header, its encoder to bits, and the record a correct parser must report.
//! Written from the Recommendation / the FLV description, not from /repo.

use crate::bits::BitWriter;

// ---------------------------------------------------------------------------------------------
// Sorenson Spark
// ---------------------------------------------------------------------------------------------

#[derive(Clone, Debug, PartialEq, Eq, Hash)]
pub enum SSize {
    /// size code 0: 8-bit width/height
    Custom8(u8, u8),
    /// size code 1: 16-bit width/height
    Custom16(u16, u16),
    /// size codes 2..=7 (2 CIF, 3 QCIF, 4 SQCIF, 5 320x240, 6 160x120, 7 reserved)
    Code(u8),
}
impl SSize {
    pub fn auto(w: u16, h: u16) -> SSize {
        if w < 256 && h < 256 {
            SSize::Custom8(w as u8, h as u8)
        } else {
            SSize::Custom16(w, h)
        }
    }
    /// None = reserved (code 7)
    pub fn dims(&self) -> Option<(u16, u16)> {
        match *self {
            SSize::Custom8(w, h) => Some((w as u16, h as u16)),
            SSize::Custom16(w, h) => Some((w, h)),
            SSize::Code(2) => Some((352, 288)),
            SSize::Code(3) => Some((176, 144)),
            SSize::Code(4) => Some((128, 96)),
            SSize::Code(5) => Some((320, 240)),
            SSize::Code(6) => Some((160, 120)),
            SSize::Code(_) => None,
        }
    }
}

#[derive(Clone, Debug, PartialEq, Eq, Hash)]
pub struct SHdr {
    pub version: u8, // 5 bits
    pub tr: u8,
    pub size: SSize,
    pub ptype: u8, // 2 bits: 0 I, 1 P, 2 disposable P, 3 reserved
    pub deblock: bool,
    pub q: u8, // 5 bits
    pub pei: Vec<u8>,
}
impl SHdr {
    pub fn simple(w: u16, h: u16, ptype: u8, tr: u8, q: u8) -> SHdr {
        SHdr { version: 0, tr, size: SSize::auto(w, h), ptype, deblock: false, q, pei: vec![] }
    }
    pub fn put(&self, w: &mut BitWriter) {
        w.put(1, 17);
        w.put(self.version as u32, 5);
        w.put(self.tr as u32, 8);
        match self.size {
            SSize::Custom8(a, b) => {
                w.put(0, 3);
                w.put(a as u32, 8);
                w.put(b as u32, 8);
            }
            SSize::Custom16(a, b) => {
                w.put(1, 3);
                w.put(a as u32, 16);
                w.put(b as u32, 16);
            }
            SSize::Code(c) => w.put(c as u32, 3),
        }
        w.put(self.ptype as u32, 2);
        w.put(self.deblock as u32, 1);
        w.put(self.q as u32, 5);
        for b in &self.pei {
            w.put(1, 1);
            w.put(*b as u32, 8);
        }
        w.put(0, 1);
    }
}

// ---------------------------------------------------------------------------------------------
// H.263 clause 5.1
// ---------------------------------------------------------------------------------------------

pub const O_SPLIT: u32 = 1;
pub const O_DOC: u32 = 2;
pub const O_FREEZE: u32 = 4;
pub const O_UMV: u32 = 8;
pub const O_SAC: u32 = 16;
pub const O_AP: u32 = 32;
pub const O_AIC: u32 = 64;
pub const O_DF: u32 = 128;
pub const O_SS: u32 = 256;
pub const O_RPS: u32 = 512;
pub const O_ISD: u32 = 1024;
pub const O_AIV: u32 = 2048;
pub const O_MQ: u32 = 4096;
pub const O_RPR: u32 = 8192;
pub const O_RRU: u32 = 16384;
pub const O_RTYPE: u32 = 32768;
pub const O_SORENSON_DEBLOCK: u32 = 65536;
pub const OPPTYPE_MASK: u32 = O_UMV | O_SAC | O_AP | O_AIC | O_DF | O_SS | O_RPS | O_ISD | O_AIV | O_MQ;

#[derive(Clone, Debug, PartialEq, Eq, Hash, Default)]
pub struct Opp {
    pub srcfmt: u8,     // 3 bits; 6 = custom
    pub custom_pcf: bool,
    pub modes: u16,     // 10 bits, MSB first: UMV SAC AP AIC DF SS RPS ISD AIV MQ
    pub marker: u8,     // 4 bits, must be 0b1000
}
impl Opp {
    pub fn options(&self) -> u32 {
        let names = [O_UMV, O_SAC, O_AP, O_AIC, O_DF, O_SS, O_RPS, O_ISD, O_AIV, O_MQ];
        let mut o = 0;
        for (i, n) in names.iter().enumerate() {
            if self.modes >> (9 - i) & 1 == 1 {
                o |= n;
            }
        }
        o
    }
}

#[derive(Clone, Debug, PartialEq, Eq, Hash, Default)]
pub struct Cpfmt {
    pub par: u8,   // 4 bits
    pub pwi: u16,  // 9 bits
    pub marker: bool,
    pub phi: u16,  // 9 bits
    pub epar: (u8, u8), // transmitted iff par == 15
}

#[derive(Clone, Debug, PartialEq, Eq, Hash, Default)]
pub struct Plus {
    pub ufep: u8, // 3 bits
    pub opp: Opp, // transmitted iff ufep == 1
    pub mpp_type: u8, // 3 bits
    pub rpr: bool,
    pub rru: bool,
    pub rtype: bool,
    pub mpp_marker: u8, // 3 bits, must be 0b001
    pub cpm: Option<u8>, // CPM + PSBI, immediately after PLUSPTYPE
    pub cpfmt: Cpfmt,    // transmitted iff ufep==1 && opp.srcfmt==6
    pub cpcfc: u8,       // transmitted iff ufep==1 && opp.custom_pcf
    pub etr: u8,         // 2 bits, transmitted iff custom pcf
    pub uui: u8,         // transmitted iff ufep==1 && UMV: 1 => "1", 2 => "01", 0 => "00"
    pub sss: u8,         // 2 bits iff ufep==1 && SS
    pub elnum: u8,       // 4 bits iff scalability negotiated
    pub rlnum: u8,       // 4 bits iff scalability negotiated && ufep==1
    pub rpsmf: u8,       // 3 bits iff ufep==1 && RPS
    pub trp: Option<u16>, // TRPI (+TRP 10 bits) iff RPS in force
    pub bci: u8,         // iff RPS in force: 2 => "01", 1 => "1" (BCM follows), 0 => "00"
}

#[derive(Clone, Debug, PartialEq, Eq, Hash, Default)]
pub struct StdHdr {
    pub tr: u8,
    pub hi2: u8, // PTYPE bits 1-2, must be 0b10
    pub split: bool,
    pub doc: bool,
    pub freeze: bool,
    pub srcfmt: u8, // 3 bits; 7 => PLUSPTYPE
    // baseline only (srcfmt != 7)
    pub inter: bool, // bit 9: 0 INTRA, 1 INTER
    pub umv: bool,
    pub sac: bool,
    pub ap: bool,
    pub pb: bool,
    pub plus: Option<Plus>, // Some iff srcfmt == 7
    pub pquant: u8,
    pub cpm: Option<u8>, // baseline position (after PQUANT); ignored when plus
    pub trb: u8,
    pub dbquant: u8, // 2 bits
    pub pei: Vec<u8>,
}

#[derive(Clone, Debug, PartialEq)]
pub enum Fmt {
    SubQcif,
    Qcif,
    Cif,
    FourCif,
    SixteenCif,
    Reserved,
    Custom { par: u8, epar: (u8, u8), w: u16, h: u16 },
}
impl Fmt {
    pub fn dims(&self) -> Option<(u16, u16)> {
        Some(match self {
            Fmt::SubQcif => (128, 96),
            Fmt::Qcif => (176, 144),
            Fmt::Cif => (352, 288),
            Fmt::FourCif => (704, 576),
            Fmt::SixteenCif => (1408, 1152),
            Fmt::Reserved => return None,
            Fmt::Custom { w, h, .. } => (*w, *h),
        })
    }
    fn from_code(c: u8) -> Fmt {
        match c {
            1 => Fmt::SubQcif,
            2 => Fmt::Qcif,
            3 => Fmt::Cif,
            4 => Fmt::FourCif,
            5 => Fmt::SixteenCif,
            _ => Fmt::Reserved,
        }
    }
}

#[derive(Clone, Debug, PartialEq, Eq)]
pub enum PType {
    I,
    P,
    Pb,
    ImprovedPb,
    B,
    Ei,
    Ep,
    Reserved(u8),
    Disposable,
}

/// What a correct parser reports for a header (None fields = "not present").
#[derive(Clone, Debug, PartialEq)]
pub struct Expect {
    pub version: Option<u8>,
    pub tr: u16,
    pub format: Option<Fmt>,
    pub options: u32,
    pub has_plusptype: bool,
    pub has_opptype: bool,
    pub ptype: PType,
    pub mvrange: Option<u8>,      // 1 = limited/extended, 2 = unlimited
    pub sss: Option<(bool, bool)>, // (rectangular, arbitrary order)
    pub layer: Option<(u8, Option<u8>)>,
    pub rpsmf: Option<(bool, bool, bool)>, // (reserved, nack, ack)
    pub trp: Option<u16>,
    pub quantizer: u8,
    pub cpm: Option<u8>,
    pub trb: Option<u8>,
    pub dbquant: Option<u8>,
    pub extra: Vec<u8>,
}

/// Outcome the model prescribes.
#[derive(Clone, Debug, PartialEq)]
pub enum Verdict {
    /// must be parsed to exactly this record
    Exact(Box<Expect>),
    /// must not be accepted as a picture header (wrong marker / reserved / forbidden value)
    Reject(&'static str),
    /// construct the implementation documents as unimplemented, or where the Recommendation is
    /// not pinned down by the model: Err is fine; if Ok, the record must still equal this one
    ExactOrErr(Box<Expect>, &'static str),
    /// the model does not pin the construct down: nothing is asserted
    Unspecified(&'static str),
}

impl SHdr {
    pub fn expect(&self) -> Verdict {
        let fmt = match self.size.dims() {
            Some((w, h)) => match self.size {
                SSize::Code(2) => Fmt::Cif,
                SSize::Code(3) => Fmt::Qcif,
                SSize::Code(4) => Fmt::SubQcif,
                _ => Fmt::Custom { par: 1, epar: (0, 0), w, h },
            },
            None => Fmt::Reserved,
        };
        Verdict::Exact(Box::new(Expect {
            version: Some(self.version),
            tr: self.tr as u16,
            format: Some(fmt),
            options: if self.deblock { O_SORENSON_DEBLOCK } else { 0 },
            has_plusptype: false,
            has_opptype: false,
            ptype: match self.ptype {
                0 => PType::I,
                1 => PType::P,
                2 => PType::Disposable,
                r => PType::Reserved(r),
            },
            mvrange: Some(2),
            sss: None,
            layer: None,
            rpsmf: None,
            trp: None,
            quantizer: self.q,
            cpm: None,
            trb: None,
            dbquant: None,
            extra: self.pei.clone(),
        }))
    }
}

impl StdHdr {
    /// Baseline I/P header with a standard source format.
    pub fn baseline(srcfmt: u8, inter: bool, tr: u8, q: u8) -> StdHdr {
        StdHdr { tr, hi2: 2, srcfmt, inter, pquant: q, ..Default::default() }
    }
    /// PLUSPTYPE header with UFEP=001 and a custom format (w multiple of 4, h multiple of 4).
    pub fn custom(w: u16, h: u16, inter: bool, tr: u8, q: u8) -> StdHdr {
        assert!(w % 4 == 0 && h % 4 == 0 && w >= 4 && h >= 4 && w <= 2048 && h <= 2044, "size not representable in CPFMT");
        StdHdr {
            tr,
            hi2: 2,
            srcfmt: 7,
            plus: Some(Plus {
                ufep: 1,
                opp: Opp { srcfmt: 6, custom_pcf: false, modes: 0, marker: 8 },
                mpp_type: inter as u8,
                mpp_marker: 1,
                cpfmt: Cpfmt { par: 1, pwi: w / 4 - 1, marker: true, phi: h / 4, epar: (0, 0) },
                bci: 2,
                uui: 1,
                ..Default::default()
            }),
            pquant: q,
            ..Default::default()
        }
    }

    /// Options in force for *field presence* given the previous header's options.
    fn plus_options(&self, prev_options: u32) -> u32 {
        let p = self.plus.as_ref().unwrap();
        let mut o = 0;
        if p.ufep == 1 {
            o |= p.opp.options();
        } else {
            o |= prev_options & OPPTYPE_MASK;
        }
        if p.rpr {
            o |= O_RPR;
        }
        if p.rru {
            o |= O_RRU;
        }
        if p.rtype {
            o |= O_RTYPE;
        }
        o
    }

    pub fn put(&self, w: &mut BitWriter, scalability: bool, prev_options: u32) {
        w.put(1, 17);
        w.put(0, 5);
        w.put(self.tr as u32, 8);
        w.put(self.hi2 as u32, 2);
        w.put_bool(self.split);
        w.put_bool(self.doc);
        w.put_bool(self.freeze);
        w.put(self.srcfmt as u32, 3);
        if self.srcfmt != 7 {
            if self.srcfmt == 0 {
                // forbidden; nothing sensible follows, keep the baseline layout
            }
            w.put_bool(self.inter);
            w.put_bool(self.umv);
            w.put_bool(self.sac);
            w.put_bool(self.ap);
            w.put_bool(self.pb);
            if scalability {
                // the model does not define ELNUM for non-PLUSPTYPE headers; callers avoid this
            }
            w.put(self.pquant as u32, 5);
            match self.cpm {
                None => w.put(0, 1),
                Some(p) => {
                    w.put(1, 1);
                    w.put(p as u32, 2);
                }
            }
            if self.pb {
                w.put(self.trb as u32, 3);
                w.put(self.dbquant as u32, 2);
            }
        } else {
            let p = self.plus.as_ref().expect("srcfmt 7 needs plus");
            w.put(p.ufep as u32, 3);
            let has_opp = p.ufep == 1;
            if has_opp {
                w.put(p.opp.srcfmt as u32, 3);
                w.put_bool(p.opp.custom_pcf);
                w.put(p.opp.modes as u32, 10);
                w.put(p.opp.marker as u32, 4);
            }
            w.put(p.mpp_type as u32, 3);
            w.put_bool(p.rpr);
            w.put_bool(p.rru);
            w.put_bool(p.rtype);
            w.put(p.mpp_marker as u32, 3);
            match p.cpm {
                None => w.put(0, 1),
                Some(v) => {
                    w.put(1, 1);
                    w.put(v as u32, 2);
                }
            }
            let opts = self.plus_options(prev_options);
            let custom_pcf = has_opp && p.opp.custom_pcf;
            if has_opp && p.opp.srcfmt == 6 {
                w.put(p.cpfmt.par as u32, 4);
                w.put(p.cpfmt.pwi as u32, 9);
                w.put_bool(p.cpfmt.marker);
                w.put(p.cpfmt.phi as u32, 9);
                if p.cpfmt.par == 15 {
                    w.put(p.cpfmt.epar.0 as u32, 8);
                    w.put(p.cpfmt.epar.1 as u32, 8);
                }
            }
            if custom_pcf {
                w.put(p.cpcfc as u32, 8);
                w.put(p.etr as u32, 2);
            }
            if has_opp && opts & O_UMV != 0 {
                match p.uui {
                    1 => w.put(1, 1),
                    2 => w.put(1, 2),
                    _ => w.put(0, 2),
                }
            }
            if has_opp && opts & O_SS != 0 {
                w.put(p.sss as u32, 2);
            }
            if scalability {
                w.put(p.elnum as u32, 4);
                if has_opp {
                    w.put(p.rlnum as u32, 4);
                }
            }
            if has_opp && opts & O_RPS != 0 {
                w.put(p.rpsmf as u32, 3);
            }
            if opts & O_RPS != 0 {
                match p.trp {
                    None => w.put(0, 1),
                    Some(t) => {
                        w.put(1, 1);
                        w.put(t as u32, 10);
                    }
                }
                match p.bci {
                    1 => w.put(1, 1),
                    2 => w.put(1, 2),
                    _ => w.put(0, 2),
                }
            }
            w.put(self.pquant as u32, 5);
            if p.mpp_type == 2 {
                w.put(self.trb as u32, if custom_pcf { 5 } else { 3 });
                w.put(self.dbquant as u32, 2);
            }
        }
        for b in &self.pei {
            w.put(1, 1);
            w.put(*b as u32, 8);
        }
        w.put(0, 1);
    }

    /// `prev`: options and format of the previous header handed to the parser (None = first picture).
    pub fn expect(&self, scalability: bool, prev: Option<(u32, Option<Fmt>)>) -> Verdict {
        if self.hi2 != 2 {
            return Verdict::Reject("PTYPE bits 1-2 must be 10");
        }
        if self.srcfmt == 0 {
            return Verdict::Reject("source format 000 is forbidden");
        }
        let mut options = 0;
        if self.split {
            options |= O_SPLIT;
        }
        if self.doc {
            options |= O_DOC;
        }
        if self.freeze {
            options |= O_FREEZE;
        }
        let prev_options = prev.as_ref().map(|p| p.0).unwrap_or(0);
        if self.srcfmt != 7 {
            if self.umv {
                options |= O_UMV;
            }
            if self.sac {
                options |= O_SAC;
            }
            if self.ap {
                options |= O_AP;
            }
            let fmt = Fmt::from_code(self.srcfmt);
            let e = Expect {
                version: None,
                tr: self.tr as u16,
                format: Some(fmt.clone()),
                options,
                has_plusptype: false,
                has_opptype: false,
                ptype: if self.pb {
                    PType::Pb
                } else if self.inter {
                    PType::P
                } else {
                    PType::I
                },
                mvrange: None,
                sss: None,
                layer: None,
                rpsmf: None,
                trp: None,
                quantizer: self.pquant,
                cpm: self.cpm,
                trb: if self.pb { Some(self.trb & 7) } else { None },
                dbquant: if self.pb { Some(self.dbquant & 3) } else { None },
                extra: self.pei.clone(),
            };
            if scalability {
                return Verdict::Unspecified("ELNUM without PLUSPTYPE is not modelled");
            }
            if let Some((_, pf)) = &prev {
                if *pf != Some(fmt) {
                    return Verdict::ExactOrErr(Box::new(e), "format change needs RPRP (unimplemented)");
                }
            }
            return Verdict::Exact(Box::new(e));
        }
        let p = self.plus.as_ref().unwrap();
        if p.ufep > 1 {
            return Verdict::Reject("UFEP other than 000/001 is reserved");
        }
        let has_opp = p.ufep == 1;
        if has_opp && p.opp.marker != 8 {
            return Verdict::Reject("OPPTYPE bits 15-18 must be 1000");
        }
        if p.mpp_marker != 1 {
            return Verdict::Reject("MPPTYPE bits 7-9 must be 001");
        }
        options |= self.plus_options(prev_options);
        let custom_pcf = has_opp && p.opp.custom_pcf;
        let mut format = None;
        if has_opp {
            format = Some(match p.opp.srcfmt {
                6 => {
                    if !p.cpfmt.marker {
                        return Verdict::Reject("CPFMT bit 14 must be 1");
                    }
                    if p.cpfmt.par == 0 {
                        return Verdict::Reject("PAR 0000 is forbidden");
                    }
                    if p.cpfmt.par == 15 && (p.cpfmt.epar.0 == 0 || p.cpfmt.epar.1 == 0) {
                        return Verdict::Reject("EPAR zero is forbidden");
                    }
                    Fmt::Custom {
                        par: p.cpfmt.par,
                        epar: if p.cpfmt.par == 15 { p.cpfmt.epar } else { (0, 0) },
                        w: (p.cpfmt.pwi + 1) * 4,
                        h: p.cpfmt.phi * 4,
                    }
                }
                0 | 7 => Fmt::Reserved,
                c => Fmt::from_code(c),
            });
        }
        let mvrange = if has_opp && options & O_UMV != 0 {
            match p.uui {
                1 => Some(1),
                2 => Some(2),
                _ => return Verdict::Reject("UUI 00 is forbidden"),
            }
        } else {
            None
        };
        let sss = if has_opp && options & O_SS != 0 {
            Some((p.sss & 2 != 0, p.sss & 1 != 0))
        } else {
            None
        };
        let layer = if scalability {
            Some((p.elnum, if has_opp { Some(p.rlnum) } else { None }))
        } else {
            None
        };
        let rpsmf = if has_opp && options & O_RPS != 0 {
            Some((p.rpsmf & 4 == 0, p.rpsmf & 2 != 0, p.rpsmf & 1 != 0))
        } else {
            None
        };
        let mut unimpl: Option<&'static str> = None;
        let mut trp = None;
        if options & O_RPS != 0 {
            trp = p.trp;
            match p.bci {
                2 => {}
                1 => unimpl = Some("BCM present (unimplemented)"),
                _ => return Verdict::Reject("BCI 00 is forbidden"),
            }
        }
        if options & O_RPR != 0 {
            unimpl = Some("RPRP (unimplemented)");
        }
        if let Some((_, pf)) = &prev {
            if *pf != format {
                unimpl = Some("format differs from previous header: RPRP gate (unimplemented)");
            }
        }
        let is_pb = p.mpp_type == 2;
        let e = Expect {
            version: None,
            tr: if custom_pcf { ((p.etr as u16) << 8) | self.tr as u16 } else { self.tr as u16 },
            format,
            options,
            has_plusptype: true,
            has_opptype: has_opp,
            ptype: match p.mpp_type {
                0 => PType::I,
                1 => PType::P,
                2 => PType::ImprovedPb,
                3 => PType::B,
                4 => PType::Ei,
                5 => PType::Ep,
                r => PType::Reserved(r),
            },
            mvrange,
            sss,
            layer,
            rpsmf,
            trp,
            quantizer: self.pquant,
            cpm: p.cpm,
            // TRB is transmitted in 3 bits, or 5 with a custom picture clock frequency
            trb: if is_pb { Some(self.trb & if custom_pcf { 31 } else { 7 }) } else { None },
            dbquant: if is_pb { Some(self.dbquant) } else { None },
            extra: self.pei.clone(),
        };
        match unimpl {
            Some(why) => Verdict::ExactOrErr(Box::new(e), why),
            None => Verdict::Exact(Box::new(e)),
        }
    }
}
