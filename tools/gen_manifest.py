#!/usr/bin/env python3
"""Regenerates /verif/MANIFEST.json from the table below (kept in one place so it stays valid)."""
import json, os, subprocess
ROOT = os.path.dirname(os.path.dirname(os.path.abspath(__file__)))
CHECKS = {
 # id: (engine, technique, level text, level note, design ref)
 "C01": ("crash", "bounded-exhaustive enumeration of hostile inputs (grammar-token sequences with bounded deviations, header alphabet x bodies x truncations, all single-byte corruptions of base pictures, all short byte strings) x decoder histories x option sets, executed under catch_unwind with overflow checks in isolated, watched worker processes",
         "Every input within the stated bounds is decoded after every history of the history alphabet with every applicable option set; a panic (overflow, out-of-bounds, division by zero, failed expect), an abort, a killed worker or a decode call without progress for 30 s is a violation; afterwards the most recent picture must be consistent with its own format. Inputs declaring more than 2^22 pixels are excluded by an exact header pre-filter and counted.",
         "Quantifies over all byte strings: decided within the bounds only (deviation <= 2, pictures <= 6 macroblocks, strings <= 3 bytes, single-byte corruptions); random long strings are labelled sampling. No unsafe code in the crates (count recorded), so panic-free implies memory-safe.", "3.1"),
 "C02": ("intra", "bounded-exhaustive enumeration of intra-picture syntax trees (sizes, CBP x sparsity shapes, every TCOEF event form, INTRADC, DQUANT sequences, stuffing) decoded by the real decoder and compared with an independent reference decoder",
         "Small-scope exhaustive: every picture size up to a bound in three header kinds, every coded-block pattern x sparsity shape, every short/escape event over boundary levels and quantizers, every INTRADC code and position, every DQUANT triple from every PQUANT, stuffing/PEI combinations - each decoded through H263State and compared sample by sample with a naive f64 reference decoder under the rounding-boundary rule.",
         "Reference decoder and VLC tables are transcribed from the Recommendation independently of /repo; scope bounds (size <= 40/80, boundary-value level alphabets) stand for larger pictures.", "3.2"),
 "C03": ("inter", "bounded-exhaustive enumeration of predicted-picture syntax trees over noise reference pictures (all macroblock-kind assignments, all 64x64 differentials per size class and phase, truncation at every macroblock and byte) against a reference decoder",
         "Small-scope exhaustive: all 7^n macroblock-kind assignments on five grids, every differential on single-macroblock pictures of each size class (vectors up to 16 samples outside every edge, all half-sample phases, fast and generic fetch path) and on the interior of 48x48 with three residual kinds, truncation after every macroblock and at every byte, prediction without reference, residual clipping - whole pictures compared with the reference decoder.",
         "Reference pictures are LCG noise so a wrong vector/phase/clamp is visible; scope (<= 9 macroblocks, sizes <= 48) stands for larger pictures.", "3.3"),
 "C10": ("idct", "complete enumeration of the prescribed finite Annex A block sets (per generator seed) and of the sparse-shortcut lattices through the hooked channel IDCT, against an f64 reference",
         "The Annex A / IEEE 1180 procedure verbatim (10000 blocks x 3 ranges x 2 signs per generator seed; peak, per-position and overall mean-square and mean errors, zero block); all 4096 DC-only blocks; first-row/first-column blocks: every single-entry vector over -2048..2047, every two-entry vector over a boundary set, dense vectors - each against the double-precision transform (peak <= 1); all sequences of 4 (thorough 5) blocks over a 9-letter block alphabet in one plane, each block compared with the same block transformed alone.",
         "Accuracy is statistical by definition: the prescribed sets are enumerated completely, further seeds are further finite sets; residual -256 is observable only as <= -255 through a u8 plane. Uses the feature-gated re-export of idct_channel and DecodedDctBlock.", "3.10"),
 "C11": ("dequant", "exhaustive enumeration of the finite quantizer x level x position domain through the hooked dequantiser, and of every codable level form end to end, against the closed-form rule",
         "All 31 quantizers x levels +-1..1023 x 64 zig-zag positions x {with, without INTRADC} are dequantised by the real routine and compared exactly (value and position); every quantizer x every level in every codable form is also decoded end to end in intra pictures and compared with the reference decoder; all 256 INTRADC codes x 6 blocks; all 31 x 4 quantizer updates against the picture coded with the clamped quantizer; all ordered triples of dequantiser calls over a 54-letter (quantizer, level) alphabet on one thread (purity).",
         "Direct part uses the feature-gated re-export of inverse_rle; end-to-end part observes through IDCT rounding under the rounding-boundary rule.", "3.11"),
 "C12": ("inter", "exhaustive enumeration of the finite vector domains (64x64 predictor/differential pairs per component, all 253 four-vector sums, all neighbour-kind assignments on 9 grids) through whole decoded P pictures",
         "Every (predictor, differential) pair per component and jointly, in a first-row pair and in the interior of a 3x3 grid; every possible sum of four luma vectors in three decompositions for both components; every assignment of {INTER, INTER4V, INTRA, not-coded} to the existing neighbours of every target position on nine macroblock grids for INTER and INTER4V targets; every MVD codeword. The decoded picture over a noise reference is compared with the model's prediction.",
         "Vectors are observed through pixels (noise reference); differentials for prescribed vectors are derived with the model's own predictor, so a model error would show as a false alarm on the unchanged tree, not as silence.", "3.12"),
 "C04": ("refgraph", "explicit-state breadth-first search over the real H263State to a fixpoint (closed picture alphabet) plus a depth-bounded graph with real motion, every transition compared with a two-slot reference model",
         "The complete reachable state graph of the decoder for the alphabet {I, Pa, Pb, Da, Db} x TR {0,1,255} x 3 contents + rejected inputs + clean-up is explored (every operation from every state, de-duplicated on the decoder's whole state), in Sorenson and standard mode; each transition's Ok/Err, most-recent picture (pixels, TR, type, quantizer) and prediction source are compared with the model (last, reference). A depth-bounded graph uses real motion over noise references, and a size-change graph (five shapes incl. transposes; predicted, all-skipped and empty pictures) is explored to its fixpoint.",
         "Fixpoint holds for the stated alphabet (flat contents make the image space finite); state key through the cfg-gated hook; longer TR alphabets in the thorough tier.", "3.4"),
 "C05": ("atomic", "exhaustive product of the decoder's reachable state graph (explicit-state search of C04) x failure sites x continuations, plus every byte split point of every base picture through a growable source",
         "From every reachable decoder state (fixpoint graphs, both modes) every failure site is injected; whenever the call returns Err the complete decoder state (hooked key including the carried-over options), the most recent picture and the bits re-read from the same reader must be unchanged, a repeated failure must change nothing, and every continuation must equal a twin decoder that never saw the input. Every base picture is delivered in two parts at every byte boundary to one reader: the retry after appending must equal one-piece decoding, an early-ended success must equal the early-end model.",
         "Conditional on Err (the evidence lists how often each site failed); failure sites are a finite menu chosen to fail at every depth (header, macroblock header, block data, prediction); state key via the cfg-gated hook.", "3.5"),
 "C06": ("headers", "exhaustive per-field and pairwise enumeration of header descriptions (each field over its whole range, all field pairs over boundary sets, a full cross of reduced domains, all bit phases x stuffing lengths, all inheritance subsets) against a header model",
         "Each header is written from a field-level description by an independent bit writer and parsed by parser::decode_picture; the returned record is compared field by field with the description and a sentinel after the header pins the number of bits consumed. Sorenson: all versions, TRs, size codes, all 256x256 8-bit sizes, all 16-bit widths/heights, type x deblock x quantizer, PEI; H.263: every PTYPE/PLUSPTYPE/CPFMT/EPAR/CPCFC/ETR/UUI/SSS/ELNUM/RLNUM/RPSMF/TRP/BCI/TRB/DBQUANT/PEI field over its full range on three base headers with and without scalability, all 2^10 OPPTYPE mode patterns, all 512x512 size indications, marker bits, inheritance from every subset of OPPTYPE options; decoded pictures report their header.",
         "The model follows H.263 clause 5.1 as transcribed in harness/src/refhdr.rs; constructs documented as unimplemented (RPRP, BCM, format change) may answer Err, ELNUM without PLUSPTYPE is not asserted.", "3.6"),
 "C07": ("yuv", "exhaustive enumeration of the finite input domain (2^24 colours x 8 code positions) against a fixed-point reference model",
         "Every one of the 16,777,216 (Y,Cb,Cr) triples is pushed through yuv420_to_rgba in every SIMD lane and every remainder slot, alone and among contrasting neighbours, and compared with a 16.16 model derived from the real BT.601 constants; the full result table is checked for monotonicity. The domain is finite, so this is a complete decision for the per-pixel formula.",
         "Trusts the model's derivation of the coefficients from the BT.601 reals and the C07 layout argument (7x1 pictures reach lanes 0..3 and remainder slots 0..2).", "3.7"),
 "C09": ("deblock", "exhaustive enumeration of the kernel input domain (2^32 patterns x 12 strengths x vector/scalar slot x both passes) plus bounded-exhaustive shape sweep against a scalar Annex J model",
         "The four-sample kernel is decided over its whole finite domain (thorough: all 2^32 x 12 in a vector lane and in the scalar remainder of both passes; quick: all 2^32 for one strength + a 32x32 (A,B) lattice x all (C,D) elsewhere) through the public deblock() on images that isolate one pass; whole-image behaviour (edge positions, pass order, untouched samples, incomplete edges) is compared with an edge-by-edge model for every width x height in a dense range x 12 strengths x 6 contents; each pattern is also placed alone in an otherwise flat vector group (group-level shortcuts), and all sequences of three calls over 30 (shape, strength, content) letters run on one thread (purity).",
         "Trusts the i32 transcription of the Annex J formulas and Table J.2; images larger than the shape bound are represented by their residues mod 8.", "3.9"),
 "C13": ("pipeline", "bounded-exhaustive size x quantizer sweep: decode, check the plane-size relations, deblock with the tabulated strength, convert - all under catch_unwind",
         "Every picture size 1..48 (thorough 64) squared x quantizers 1..31 (fully crossed up to 20x20, pairwise beyond) as I pictures, plus a P and a D picture per size, plus long/thin extras and standard-mode sizes: the decoded planes must satisfy the documented size relations and the two post-processing stages must complete and return width x height pixels.",
         "Sizes beyond the bound are represented by residue classes (mod 16 for the decoder, mod 8 / <10 for the deblocker, mod 4 / mod 2 for the converter), all inside the bound.", "3.13"),
 "C15": ("stream", "bounded-exhaustive enumeration of all picture sequences up to length 3 over a picture alphabet (types x sizes x all 8 padding lengths x 2 bodies), one-reader decoder vs per-picture-reader decoder vs reference decoder",
         "All sequences of up to three pictures from an alphabet realising every padding length 0..7 and both 'last macroblock coded / not coded' endings, from a fresh decoder and after an I picture, in Sorenson and standard mode: the decoder reading the concatenation from one reader must agree call by call with a decoder given one reader per picture and with the reference decoder, and end within 8 bits of the end of data.",
         "Pictures of a sequence share one size; alphabet sizes are small (<= 32x16, sub-QCIF in the thorough tier).", "3.15"),
 "C14": ("bitreader", "explicit-state breadth-first search to fixpoint over the real H263Reader (state = bytes pulled, buffer length, bit offset) for every short source, each transition compared with a bit-vector model; plus exhaustive one-step value sweep",
         "For every source of up to 4 (thorough 5) bytes over a byte alphabet chosen for start codes/stuffing/mixed bits, delivered whole or split, the complete reachable state graph of the reader under ~670 operations per state (peeks, reads, signed reads, skips, start-code search, commits, VLC/UMV reads, successful/failed/nested transactions, unions, look-aheads, source growth) is explored; every returned value/error is compared with the model and a drain probe at every new state checks that each remaining bit is delivered exactly once in order. All 65536 two-byte sources x offsets x widths 0..33 x types cover data values.",
         "State key read through the cfg-gated hook (destructures the struct, so it is the reader's whole state); operation alphabet and source alphabet are bounds; commit inside a failing transaction and zero-width signed reads are outside the documented contract and not generated.", "3.14"),
 "C17": ("determinism", "exhaustive enumeration of all call-level interleavings (multiset permutations) of several decoder instances under an explicit scheduler, in two thread placements, against each instance's solo run",
         "Every interleaving of the calls of every pair of six instance scripts (and of triples: all multisets in the thorough tier, a covering subset in quick) is executed on one thread and with one OS thread per instance under token passing; every instance's sequence of (Ok/Err, picture+header hash) must equal its solo sequential run. Every ordered pair of about 90 one-picture letters is decoded back to back by two fresh decoders on one thread and the second result compared with its solo result. First-initialisation order of the lazily initialised constants is varied in fresh child processes. Hash-seed dependence (16 fresh instances) and free-running threads are sampled and labelled as sampling.",
         "Interleavings are exhaustive at call granularity: the crates contain no lock, atomic, channel, unsafe or static mut (inventory recorded in the evidence; a note is printed if that changes), so there is no scheduling point inside a call for loom/shuttle to control.", "3.17"),
 "C16": ("deblock", "bounded-exhaustive shape sweep (all widths x heights x strengths up to a bound) + literal table comparison",
         "Every width 1..64 x height 0..64 (thorough 128) x strength 1..12 x 2 contents is run under catch_unwind with overflow checks: no panic, length preserved, equal to the model (which has no edge when fewer than 10 rows/columns). The 31 table entries are compared with the literal Table J.2.",
         "Sizes beyond the bound are not enumerated; the loop bounds depend on size only through comparisons against small constants, all of which lie inside the bound.", "3.16"),
 "C08": ("yuv", "bounded-exhaustive shape sweep (all widths x heights up to a bound x content classes incl. all row/column equality patterns) against an index-map model",
         "All picture shapes in a dense range, each with eight content classes and every row/column-equality pattern on small shapes, compared pixel by pixel with conv(Y[x,y], Cb[x/2,y/2], Cr[x/2,y/2]); plus all sequences of three calls over 24 small pictures on one thread (the conversion must not depend on earlier calls), plus the empty picture.",
         "Per-pixel conversion taken from the C07 model; shapes beyond the bound are represented by their residues mod 4 / mod 2.", "3.8"),
}
ALL = [json.loads(l)["id"] for l in open(os.path.join(ROOT, "properties.jsonl"))]
def hook_commits():
    try:
        out = subprocess.check_output(["git", "-C", "/repo", "log", "--format=%H %s"], text=True)
        return [l.split()[0] for l in out.splitlines() if "verif hooks" in l]
    except Exception:
        return []
m = {
 "version": 1,
 "setup_cmd": "./setup.sh",
 "hooks": {
   "guard": "cargo feature `verif` of crate h263-rs (default off)",
   "enable": "the harness depends on h263-rs with features = [\"verif\"] (harness/Cargo.toml); every ./check rebuilds /repo's working tree with it",
   "baseline_off_cmd": "cd /repo && cargo test --workspace --no-fail-fast --offline",
   "source_commits": hook_commits(),
   "add_only": True,
 },
 "engines": [],
 "checks": [],
 "not_applicable": [],
 "notes": "Every check is ./check <ID> <tier>: it rebuilds the harness (which path-depends on /repo, so /repo's working tree is recompiled with the verif feature on), runs harness/src/bin/vcheck.rs, rewrites evidence/<ID>.json. Exit 0 held / 1 VIOLATION / 2 machinery failure. Known findings: known_findings.txt.",
}
engines = {}
for cid in ALL:
    if cid in CHECKS:
        eng, tech, text, note, ref = CHECKS[cid]
        engines.setdefault(eng, []).append(cid)
        m["checks"].append({
          "property_id": cid, "quick_cmd": f"./check {cid} quick", "thorough_cmd": f"./check {cid} thorough",
          "evidence_file": f"evidence/{cid}.json", "replay_cmd_template": "./check replay {path}", "engine": eng,
          "level_claimed": {"category": "model_checking", "text": text, "design_ref": f"DESIGN.md section {ref}"},
          "level_note": note, "technique": tech,
        })
    else:
        m["not_applicable"].append({"property_id": cid, "reason": "check not built yet (work in progress; see DESIGN.md for the planned engine)"})
for e, ids in engines.items():
    m["engines"].append({"name": e, "path": f"harness/src/engines/{e}.rs", "serves_properties": ids,
                         "kind_free_text": "bounded-exhaustive explorer over the real implementation with a reference model"})
json.dump(m, open(os.path.join(ROOT, "MANIFEST.json"), "w"), indent=1)
print("checks:", len(m["checks"]), "not_applicable:", len(m["not_applicable"]))
