#!/usr/bin/env python3
"""Detection self-test: applies every seeded change (and the mutants under mutants/) to a scratch
copy of the repository, confirms that the repository's own tests still pass, runs the checks and
records which ones report a violation. Nothing in /repo or /verif/evidence is touched.

usage: tools/selftest.py [--only NAME[,NAME]] [--checks own|all] [--out FILE] [--keep]
"""
import argparse, json, os, shutil, subprocess, sys, time, glob

ROOT = os.path.dirname(os.path.dirname(os.path.abspath(__file__)))
ALL = ["C%02d" % i for i in range(1, 18)]

def sh(cmd, cwd=None, env=None, timeout=None):
    p = subprocess.run(cmd, shell=True, cwd=cwd, env=env, stdout=subprocess.PIPE, stderr=subprocess.STDOUT, text=True, timeout=timeout)
    return p.returncode, p.stdout

CRATE_DIR = {"h263-rs": "h263", "h263-rs-yuv": "yuv", "h263-rs-deblock": "deblock"}

def run_demo(seed_dir, repo, st):
    """Install the demonstration into the scratch repo, run it, uninstall. Returns (ok, tail)."""
    import re
    demo = os.path.join(seed_dir, "demo")
    readme = open(os.path.join(demo, "README.txt")).read() if os.path.exists(os.path.join(demo, "README.txt")) else ""
    env = dict(os.environ, CARGO_TARGET_DIR=os.path.join(st, "repo-target"))
    # files a demonstration may have to touch; restored to what they were (the seeded change itself
    # may have modified them, so a plain `git checkout` would undo part of the change)
    touched = ["h263/src/decoder/cpu.rs", "deblock/Cargo.toml", "yuv/Cargo.toml", "h263/Cargo.toml"]
    saved = {f: open(os.path.join(repo, f)).read() for f in touched}
    installed = []
    cmds = []
    name = os.path.basename(seed_dir)
    if name == "C10-a":
        dst = os.path.join(repo, "h263/src/decoder/cpu/idct_annex_a.rs")
        shutil.copy(os.path.join(demo, "idct_annex_a.rs"), dst); installed.append(dst)
        open(os.path.join(repo, "h263/src/decoder/cpu.rs"), "a").write("\n#[cfg(test)]\nmod idct_annex_a;\n")
        cmds = ["cargo test -p h263-rs --offline idct_annex_a"]
    else:
        m = re.search(r"-p\s+(h263-rs(?:-yuv|-deblock)?)", readme)
        crate = m.group(1) if m else "h263-rs"
        tdir = os.path.join(repo, CRATE_DIR[crate], "tests")
        os.makedirs(tdir, exist_ok=True)
        for f in glob.glob(os.path.join(demo, "*.rs")):
            dst = os.path.join(tdir, os.path.basename(f)); shutil.copy(f, dst); installed.append(dst)
            cmds.append(f"cargo test -p {crate} --offline --test {os.path.basename(f)[:-3]}")
        dd = os.path.join(demo, "dev-dependencies.toml")
        if os.path.exists(dd):
            open(os.path.join(repo, CRATE_DIR[crate], "Cargo.toml"), "a").write("\n" + open(dd).read().replace("/tmp/wt-C13", repo))
    ok = True; tail = ""
    for c in cmds:
        rc, out = sh(c + " 2>&1 | tail -25", cwd=repo, env=env, timeout=1800)
        good = ("test result: ok" in out) and ("FAILED" not in out) and ("error[" not in out) and ("could not compile" not in out)
        if not good:
            ok = False; tail = out[-600:]
    for f in installed:
        os.remove(f)
    for f, content in saved.items():
        open(os.path.join(repo, f), "w").write(content)
    return ok, tail

def main():
    ap = argparse.ArgumentParser()
    ap.add_argument("--only", default="")
    ap.add_argument("--checks", default="own")
    ap.add_argument("--out", default=os.path.join(ROOT, "seeded", "selftest-report.json"))
    ap.add_argument("--keep", action="store_true")
    ap.add_argument("--demos", action="store_true")
    ap.add_argument("--tier", default="quick")
    ap.add_argument("--baseline-only", action="store_true", help="only run the checks on the unchanged scratch tree")
    ap.add_argument("--baseline-checks", default="", help="comma list of checks for the baseline run (default all)")
    ap.add_argument("--scratch", default="/tmp/verif-selftest-%d" % os.getpid())
    a = ap.parse_args()
    st = a.scratch
    repo = os.path.join(st, "repo")
    os.makedirs(st, exist_ok=True)
    rc, out = sh(f"git -C /repo worktree add --detach {repo} HEAD")
    if rc != 0:
        print(out); sys.exit(2)
    shutil.copy("/repo/Cargo.lock", repo)
    for item in ["harness", "check", "known_findings.txt"]:
        src = os.path.join(ROOT, item)
        dst = os.path.join(st, item)
        if os.path.isdir(src):
            shutil.copytree(src, dst, ignore=shutil.ignore_patterns("target"))
        else:
            shutil.copy(src, dst)
    ct = os.path.join(st, "harness", "Cargo.toml")
    s = open(ct).read().replace('"/repo/', '"%s/' % repo)
    open(ct, "w").write(s)
    cc = os.path.join(st, "harness", ".cargo", "config.toml")
    s = open(cc).read().replace("/verif/target", os.path.join(st, "target"))
    open(cc, "w").write(s)
    env = dict(os.environ, VERIF_ROOT=st, VERIF_REPO=repo, CARGO_TARGET_DIR=os.path.join(st, "target"), CARGO_NET_OFFLINE="true")
    items = []
    for d in sorted(glob.glob(os.path.join(ROOT, "seeded", "*", "patch.diff"))) + sorted(glob.glob(os.path.join(ROOT, "mutants", "*", "patch.diff"))):
        name = os.path.basename(os.path.dirname(d))
        if a.only and name not in a.only.split(","):
            continue
        items.append((name, d))
    report = {"repo_head": sh("git -C /repo rev-parse --short HEAD")[1].strip(), "verif_head": sh(f"git -C {ROOT} rev-parse --short HEAD")[1].strip(), "results": []}
    # unchanged tree first
    if not a.only or a.baseline_only:
        base = {}
        times = {}
        for c in (a.baseline_checks.split(",") if a.baseline_checks else ALL):
            t0 = time.time()
            rc, out = sh(f"./check {c} {a.tier}", cwd=st, env=env, timeout=6000)
            base[c] = rc
            times[c] = round(time.time() - t0, 1)
            print(c, a.tier, "exit", rc, times[c], "s", [l for l in out.splitlines() if l.startswith(c + " ")][-1:], flush=True)
            if rc != 0:
                print(out[-1500:], flush=True)
        report["unchanged_tree_seconds"] = times
        report["tier"] = a.tier
        report["unchanged_tree_exit_codes"] = base
        print("unchanged tree:", base, flush=True)
    if a.baseline_only:
        items = []
    for name, patch in items:
        meta = {}
        mp = os.path.join(os.path.dirname(patch), "meta.json")
        if os.path.exists(mp):
            try: meta = json.load(open(mp))
            except Exception: meta = {}
        prop = meta.get("property", name[:3])
        t0 = time.time()
        demo_before = None
        if os.path.isdir(os.path.join(os.path.dirname(patch), "demo")) and a.demos:
            demo_before = run_demo(os.path.dirname(patch), repo, st)
        rc, out = sh(f"git -C {repo} apply {patch}")
        how = "git apply"
        if rc != 0:
            rc, out = sh(f"patch -p1 --fuzz=3 -s < {patch}", cwd=repo)
            how = "patch --fuzz=3"
        res = {"name": name, "property": prop, "applied_with": how if rc == 0 else "FAILED"}
        if rc != 0:
            res["error"] = out[-400:]
            report["results"].append(res); print(name, "patch does not apply", flush=True)
            sh(f"git -C {repo} checkout -- . && git -C {repo} clean -fdq -e target -e Cargo.lock")
            continue
        rc, out = sh("cargo test --workspace --no-fail-fast --offline 2>&1 | grep -E '^test result' ", cwd=repo, env=dict(os.environ, CARGO_TARGET_DIR=os.path.join(st, "repo-target")))
        passed = sum(int(l.split("ok. ")[1].split(" passed")[0]) for l in out.splitlines() if "ok. " in l)
        failed = any("FAILED" in l for l in out.splitlines())
        res["repo_tests"] = {"passed": passed, "failed": failed}
        if demo_before is not None:
            demo_after = run_demo(os.path.dirname(patch), repo, st)
            res["demo"] = {"passes_without_change": demo_before[0], "fails_with_change": not demo_after[0], "note": (demo_before[1] if not demo_before[0] else "")[-300:]}
        checks = ALL if a.checks == "all" else [prop]
        det = {}
        for c in checks:
            rc, out = sh(f"./check {c} quick", cwd=st, env=env, timeout=3600)
            if rc == 2:
                # machinery failure (build hiccup under load): once more before recording it
                rc, out = sh(f"./check {c} quick", cwd=st, env=env, timeout=3600)
            sigs = [l.strip() for l in out.splitlines() if l.startswith("  ") and ": " in l][:3]
            det[c] = {"exit": rc, "first": sigs[:1]}
        res["checks"] = det
        res["detected_by"] = [c for c, v in det.items() if v["exit"] == 1]
        res["own_check_detects"] = det.get(prop, {}).get("exit") == 1
        res["seconds"] = round(time.time() - t0, 1)
        report["results"].append(res)
        print(name, "tests", passed, "detected by", res["detected_by"], flush=True)
        sh(f"git -C {repo} checkout -- . && git -C {repo} clean -fdq -e target -e Cargo.lock")
        json.dump(report, open(a.out, "w"), indent=1)
    json.dump(report, open(a.out, "w"), indent=1)
    if not a.keep:
        sh(f"git -C /repo worktree remove --force {repo}")
        shutil.rmtree(st, ignore_errors=True)
    bad = [r["name"] for r in report["results"] if not r.get("own_check_detects")]
    print("not detected by own check:", bad)

if __name__ == "__main__":
    main()
