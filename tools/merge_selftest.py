#!/usr/bin/env python3
"""Merge partial self-test reports (tools/selftest.py --only ...) into seeded/selftest-report.json.
A later row for the same change replaces the earlier one. usage: tools/merge_selftest.py <report>..."""
import json, os, sys
ROOT = os.path.dirname(os.path.dirname(os.path.abspath(__file__)))
main = os.path.join(ROOT, "seeded", "selftest-report.json")
rep = json.load(open(main))
rows = {r["name"]: r for r in rep["results"]}
order = [r["name"] for r in rep["results"]]
for p in sys.argv[1:]:
    part = json.load(open(p))
    for r in part["results"]:
        r["verif_head"] = part.get("verif_head")
        if r["name"] not in rows:
            order.append(r["name"])
        rows[r["name"]] = r
rep["results"] = [rows[n] for n in order]
json.dump(rep, open(main, "w"), indent=1)
print(len(rep["results"]), "rows; not reported by own check:", [r["name"] for r in rep["results"] if not r.get("own_check_detects")])
