#!/usr/bin/env python3
"""Rewrites the cost table of DESIGN.md section 6 from what the checks themselves recorded:
quick-tier figures from evidence/<id>.json (written by the last quick run in /verif), thorough wall
times and exit codes from seeded/thorough-baseline.json (tools/selftest.py --baseline-only --tier thorough).

usage: tools/cost_table.py            (edits DESIGN.md in place between the table markers)
"""
import json, os, re

ROOT = os.path.dirname(os.path.dirname(os.path.abspath(__file__)))
ALL = ["C%02d" % i for i in range(1, 18)]


def sci(n):
    if n < 10000:
        return str(n)
    e = len(str(n)) - 1
    return "%.1f·10^%d" % (n / 10 ** e, e)


def main():
    man = json.load(open(os.path.join(ROOT, "MANIFEST.json")))
    eng = {}
    for c in man.get("checks", []):
        eng[c.get("property_id") or c.get("id")] = c
    base = json.load(open(os.path.join(ROOT, "seeded", "thorough-baseline.json")))
    rows = ["| check | quick: states / transitions / wall | thorough: wall, exit |", "|-------|--------------------|----------|"]
    total_q = 0.0
    for cid in ALL:
        ev = json.load(open(os.path.join(ROOT, "evidence", cid + ".json")))
        cov = ev.get("coverage", {})
        st, tr = cov.get("states", 0), cov.get("transitions", 0)
        tier = ev.get("tier", "?")
        wall = ev.get("wall_s", 0.0)
        total_q += wall if tier == "quick" else 0
        tw = base.get("unchanged_tree_seconds", {}).get(cid)
        tx = base.get("unchanged_tree_exit_codes", {}).get(cid)
        q = "%s / %s / %.0f s" % (sci(st), sci(tr), wall) if tier == "quick" else "(evidence file is from a %s run)" % tier
        rows.append("| %s | %s | %s |" % (cid, q, "%.0f s, exit %s" % (tw, tx) if tw is not None else "-"))
    rows.append("| all 17 | %.0f s in sequence | %.0f s in sequence |" % (total_q, sum(base.get("unchanged_tree_seconds", {}).values())))
    p = os.path.join(ROOT, "DESIGN.md")
    s = open(p).read()
    m = re.search(r"(## 6\. Cost summary[^\n]*\n\n)(?:<!-- cost-table -->\n)?\| check \|.*?\n\n", s, re.S)
    assert m, "section 6 table not found"
    new = m.group(1) + "<!-- cost-table -->\n" + "\n".join(rows) + "\n\n"
    s = s[: m.start()] + new + s[m.end():]
    open(p, "w").write(s)
    print("\n".join(rows))


if __name__ == "__main__":
    main()
