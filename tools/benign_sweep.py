#!/usr/bin/env python3
"""False-alarm sweep: behaviour-preserving changes (seeded/benign*/patch.diff, written by sub-agents
that saw only the property text and were asked to refactor the code it is anchored in without
changing behaviour) are applied one at a time to a scratch copy of the repository; the repository's
tests and all 17 quick checks are run against each. Every check must exit 0: an alarm here is either
a false alarm of the machinery or a refactoring that is not behaviour-preserving after all, and is
looked at by hand. Nothing in /repo or /verif/evidence is touched.

usage: tools/benign_sweep.py [--only benign-C01,benign-C02] [--checks C05,C14] [--out FILE]
"""
import argparse, glob, json, os, shutil, subprocess, sys, time

ROOT = os.path.dirname(os.path.dirname(os.path.abspath(__file__)))
ALL = ["C%02d" % i for i in range(1, 18)]


def sh(cmd, cwd=None, env=None, timeout=None):
    try:
        p = subprocess.run(cmd, shell=True, cwd=cwd, env=env, stdout=subprocess.PIPE, stderr=subprocess.STDOUT, text=True, timeout=timeout)
        return p.returncode, p.stdout
    except subprocess.TimeoutExpired:
        return 124, "timeout"


def main():
    ap = argparse.ArgumentParser()
    ap.add_argument("--only", default="")
    ap.add_argument("--tier", default="quick")
    ap.add_argument("--checks", default="", help="comma list of checks to run (default: all 17)")
    ap.add_argument("--out", default="/root/benign-sweep.json")
    ap.add_argument("--scratch", default="/tmp/verif-benign-%d" % os.getpid())
    a = ap.parse_args()
    st = a.scratch
    repo = os.path.join(st, "repo")
    os.makedirs(st, exist_ok=True)
    rc, out = sh(f"git -C /repo worktree add --detach {repo} HEAD")
    if rc != 0:
        print(out); sys.exit(2)
    shutil.copy("/repo/Cargo.lock", repo)
    for item in ["harness", "check", "known_findings.txt"]:
        src = os.path.join(ROOT, item); dst = os.path.join(st, item)
        if os.path.isdir(src):
            shutil.copytree(src, dst, ignore=shutil.ignore_patterns("target"))
        else:
            shutil.copy(src, dst)
    ct = os.path.join(st, "harness", "Cargo.toml")
    txt = open(ct).read().replace('"/repo/', '"%s/' % repo)
    open(ct, "w").write(txt)
    cc = os.path.join(st, "harness", ".cargo", "config.toml")
    txt = open(cc).read().replace("/verif/target", os.path.join(st, "target"))
    open(cc, "w").write(txt)
    env = dict(os.environ, VERIF_ROOT=st, VERIF_REPO=repo, CARGO_TARGET_DIR=os.path.join(st, "target"), CARGO_NET_OFFLINE="true")
    renv = dict(os.environ, CARGO_TARGET_DIR=os.path.join(st, "repo-target"), CARGO_NET_OFFLINE="true")
    dirs = sorted(d for d in glob.glob(os.path.join(ROOT, "seeded", "benign*")) if os.path.isdir(d))
    if a.only:
        dirs = [d for d in dirs if os.path.basename(d) in a.only.split(",")]
    report = {"repo_head": sh("git -C /repo rev-parse --short HEAD")[1].strip(), "verif_head": sh(f"git -C {ROOT} rev-parse --short HEAD")[1].strip(), "tier": a.tier, "results": []}
    for d in dirs:
        name = os.path.basename(d)
        res = {"change": name, "checks": {}}
        rc, out = sh(f"git -C {repo} apply {os.path.join(d, 'patch.diff')}")
        if rc != 0:
            res["status"] = "patch-does-not-apply"
            res["detail"] = out[-400:]
            report["results"].append(res)
            print(name, res["status"], flush=True)
            continue
        rc, out = sh("git diff --stat | tail -1", cwd=repo)
        res["diffstat"] = out.strip()
        rc, out = sh("cargo test --workspace --no-fail-fast --offline 2>&1 | grep -E '^test result|^error' | head", cwd=repo, env=renv, timeout=3000)
        res["repository_tests"] = "failed" if ("FAILED" in out or "error" in out) else "passed"
        t0 = time.time()
        alarms = []
        for c in (a.checks.split(",") if a.checks else ALL):
            rc, out = sh(f"./check {c} {a.tier}", cwd=st, env=env, timeout=7200)
            last = out.strip().splitlines()[-1] if out.strip() else ""
            res["checks"][c] = {"exit": rc, "last": last[:200]}
            if rc != 0:
                alarms.append(c)
                res["checks"][c]["lines"] = [l[:400] for l in out.splitlines() if l.startswith("VIOLATION") or l.startswith("MACHINERY") or l.startswith("  ")][:12]
            print(" ", name, c, rc, last[:140], flush=True)
        res["alarms"] = alarms
        res["status"] = "no-alarm" if not alarms else "ALARM"
        res["seconds"] = round(time.time() - t0, 1)
        report["results"].append(res)
        print(name, res["status"], alarms, res["seconds"], flush=True)
        sh(f"git -C {repo} checkout -- . && git -C {repo} clean -fdq h263/src yuv/src deblock/src")
        json.dump(report, open(a.out, "w"), indent=1)
    report["summary"] = {"changes": len(report["results"]), "no_alarm": sum(1 for r in report["results"] if r["status"] == "no-alarm"), "alarm": [r["change"] for r in report["results"] if r["status"] == "ALARM"]}
    json.dump(report, open(a.out, "w"), indent=1)
    print("summary", report["summary"])
    sh(f"git -C /repo worktree remove --force {repo}")
    shutil.rmtree(st, ignore_errors=True)


if __name__ == "__main__":
    main()
