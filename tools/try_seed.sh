#!/bin/bash
# Apply one seeded change to /repo, run the given checks (quick unless TIER is set), undo the change.
# usage: tools/try_seed.sh <dir-with-patch.diff> <check-id>...
# NOT isolated: never run while another check of /verif is running against /repo.
set -u
dir=$(realpath "$1"); shift
tier=${TIER:-quick}
cd "$(dirname "$0")/.."
git -C /repo apply "$dir/patch.diff" || { echo "patch does not apply"; exit 2; }
trap 'git -C /repo checkout -- . ; git -C /repo clean -fdq h263/src yuv/src deblock/src' EXIT
for id in "$@"; do
    out=$(./check "$id" "$tier" 2>&1 | grep -v "^WARNING")
    rc=$?
    echo "$out" | grep -E "VIOLATION|MACHINERY|NOTE" | head -4
    echo "$out" | tail -1
done
git -C /verif checkout -- evidence 2>/dev/null
