#!/usr/bin/env python3
"""Mechanical mutation sweep: single-token mutants of the three crates (relational, arithmetic,
logical and shift operators, small integer literals, booleans, min/max), each applied to a scratch
copy of the repository. A mutant that does not compile or that the repository's own tests kill is
set aside; every other one is run against the quick checks (those mapped to the file first, then
all the others) until one reports a violation. Survivors are listed for inspection: each is either
an equivalent mutant or a blind spot. Nothing in /repo or /verif/evidence is touched.

usage: tools/mutation_sweep.py [--n 200] [--files substr,substr] [--seed 1] [--out FILE]
"""
import argparse, json, os, re, shutil, subprocess, sys, time, glob, random

ROOT = os.path.dirname(os.path.dirname(os.path.abspath(__file__)))
ALL = ["C%02d" % i for i in range(1, 18)]
FAST_FIRST = ["C11", "C16", "C08", "C03", "C12", "C13", "C02", "C10", "C07", "C06", "C15", "C05", "C04", "C01", "C09", "C14", "C17"]

MAP = [
    ("deblock/src/deblock.rs", ["C16", "C09", "C13"]),
    ("yuv/src/bt601.rs", ["C08", "C07", "C13"]),
    ("parser/reader.rs", ["C14", "C15", "C05", "C01"]),
    ("parser/vlc.rs", ["C14", "C02"]),
    ("parser/picture.rs", ["C06", "C15", "C01"]),
    ("parser/macroblock.rs", ["C03", "C02", "C12", "C15", "C01"]),
    ("parser/block.rs", ["C02", "C03", "C11", "C15", "C01"]),
    ("decoder/state.rs", ["C02", "C03", "C04", "C13", "C05", "C17", "C01"]),
    ("decoder/picture.rs", ["C13", "C02", "C03"]),
    ("cpu/gather.rs", ["C03", "C12", "C04", "C01"]),
    ("cpu/mvd_pred.rs", ["C12", "C03"]),
    ("cpu/idct.rs", ["C10", "C02"]),
    ("cpu/rle.rs", ["C11", "C02"]),
    ("types.rs", ["C12", "C03", "C06", "C02"]),
]

OPS = [
    (" <= ", " < "), (" >= ", " > "), (" < ", " <= "), (" > ", " >= "), (" == ", " != "), (" != ", " == "),
    (" + ", " - "), (" - ", " + "), (" * ", " / "), (" / ", " * "), (" % ", " / "),
    (" && ", " || "), (" || ", " && "), (" << ", " >> "), (" >> ", " << "), (" & ", " | "), (" | ", " & "),
    (" += ", " -= "), (" -= ", " += "), (".min(", ".max("), (".max(", ".min("),
    ("true", "false"), ("false", "true"),
]


def sh(cmd, cwd=None, env=None, timeout=None):
    try:
        p = subprocess.run(cmd, shell=True, cwd=cwd, env=env, stdout=subprocess.PIPE, stderr=subprocess.STDOUT, text=True, timeout=timeout)
        return p.returncode, p.stdout
    except subprocess.TimeoutExpired:
        return 124, "timeout"


def sites(repo):
    out = []
    files = sorted(glob.glob(os.path.join(repo, "h263/src/**/*.rs"), recursive=True)) + [os.path.join(repo, "yuv/src/bt601.rs"), os.path.join(repo, "deblock/src/deblock.rs")]
    for f in files:
        rel = os.path.relpath(f, repo)
        lines = open(f).read().split("\n")
        in_test = False
        in_block_comment = False
        skip_hook = 0
        for i, line in enumerate(lines):
            st = line.strip()
            if in_block_comment:
                if "*/" in line:
                    in_block_comment = False
                continue
            if st.startswith("/*") and "*/" not in line:
                in_block_comment = True
                continue
            if st.startswith("#[cfg(test)]"):
                in_test = True
            if in_test:
                continue
            if 'feature = "verif"' in line:
                skip_hook = 14
            if skip_hook > 0:
                skip_hook -= 1
                continue
            if st.startswith("//") or st.startswith("#[") or st.startswith("use ") or "debug_assert" in line or st.startswith("///"):
                continue
            code = line.split("//")[0]
            for a, b in OPS:
                start = 0
                while True:
                    k = code.find(a, start)
                    if k < 0:
                        break
                    start = k + len(a)
                    if a in (" | ", " & ") and "=>" in code:
                        continue
                    if a in (" < ", " > ") and ("->" in code or "impl" in code or "fn " in code or "::<" in code):
                        continue
                    out.append((rel, i, k, a, b))
            # integer literals
            for m in re.finditer(r"(?<![\w.])(\d+)(?![\w.])", code):
                n = int(m.group(1))
                if n > 4096:
                    continue
                out.append((rel, i, m.start(), m.group(1), str(n + 1)))
                if n > 0:
                    out.append((rel, i, m.start(), m.group(1), str(n - 1)))
    return out


def main():
    ap = argparse.ArgumentParser()
    ap.add_argument("--n", type=int, default=200)
    ap.add_argument("--files", default="")
    ap.add_argument("--seed", type=int, default=1)
    ap.add_argument("--out", default="/root/mutation-sweep.json")
    ap.add_argument("--scratch", default="/tmp/verif-mutsweep-%d" % os.getpid())
    a = ap.parse_args()
    st = a.scratch
    repo = os.path.join(st, "repo")
    os.makedirs(st, exist_ok=True)
    rc, out = sh(f"git -C /repo worktree add --detach {repo} HEAD")
    if rc != 0:
        print(out); sys.exit(2)
    shutil.copy("/repo/Cargo.lock", repo)
    for item in ["harness", "check", "known_findings.txt"]:
        src = os.path.join(ROOT, item); dst = os.path.join(st, item)
        if os.path.isdir(src):
            shutil.copytree(src, dst, ignore=shutil.ignore_patterns("target"))
        else:
            shutil.copy(src, dst)
    ct = os.path.join(st, "harness", "Cargo.toml")
    txt = open(ct).read().replace('"/repo/', '"%s/' % repo)
    open(ct, "w").write(txt)
    cc = os.path.join(st, "harness", ".cargo", "config.toml")
    txt = open(cc).read().replace("/verif/target", os.path.join(st, "target"))
    open(cc, "w").write(txt)
    env = dict(os.environ, VERIF_ROOT=st, VERIF_REPO=repo, CARGO_TARGET_DIR=os.path.join(st, "target"), CARGO_NET_OFFLINE="true")
    renv = dict(os.environ, CARGO_TARGET_DIR=os.path.join(st, "repo-target"), CARGO_NET_OFFLINE="true")
    allsites = sites(repo)
    if a.files:
        allsites = [s for s in allsites if any(x in s[0] for x in a.files.split(","))]
    rnd = random.Random(a.seed)
    # stratify by file: equal share per file, then fill up
    byfile = {}
    for s in allsites:
        byfile.setdefault(s[0], []).append(s)
    chosen = []
    share = max(1, a.n // max(1, len(byfile)))
    for f, ss in sorted(byfile.items()):
        rnd.shuffle(ss)
        chosen.extend(ss[:share])
    rest = [s for s in allsites if s not in chosen]
    rnd.shuffle(rest)
    chosen.extend(rest[:max(0, a.n - len(chosen))])
    chosen = chosen[:a.n]
    report = {"repo_head": sh("git -C /repo rev-parse --short HEAD")[1].strip(), "verif_head": sh(f"git -C {ROOT} rev-parse --short HEAD")[1].strip(), "candidate_sites": len(allsites), "sampled": len(chosen), "results": []}
    print("sites", len(allsites), "sampled", len(chosen), flush=True)
    # warm builds
    sh("cargo test --workspace --no-fail-fast --offline 2>&1 | tail -3", cwd=repo, env=renv, timeout=3000)
    sh("./check C11 quick", cwd=st, env=env, timeout=3000)
    for (rel, li, col, old, new) in chosen:
        path = os.path.join(repo, rel)
        lines = open(path).read().split("\n")
        orig = lines[li]
        lines[li] = orig[:col] + new + orig[col + len(old):]
        open(path, "w").write("\n".join(lines))
        res = {"file": rel, "line": li + 1, "from": old.strip(), "to": new.strip(), "original": orig.strip()[:160], "mutated": lines[li].strip()[:160]}
        t0 = time.time()
        rc, out = sh("cargo test --workspace --no-fail-fast --offline 2>&1 | grep -E '^test result|^error|warning: unused|error\\[' | head -20", cwd=repo, env=renv, timeout=1500)
        if "error" in out and "test result" not in out:
            res["status"] = "does-not-compile"
        elif "FAILED" in out or rc == 124:
            res["status"] = "killed-by-repository-tests"
        else:
            mapped = next((c for k, c in MAP if rel.endswith(k)), [])
            order = mapped + [c for c in FAST_FIRST if c not in mapped]
            res["status"] = "SURVIVED"
            res["checks_run"] = []
            for c in order:
                rc, out = sh(f"./check {c} quick", cwd=st, env=env, timeout=2400)
                res["checks_run"].append(c)
                if rc == 1:
                    res["status"] = "detected"
                    res["detected_by"] = c
                    res["mapped"] = c in mapped
                    sig = [l.strip() for l in out.splitlines() if l.startswith("  ") and ": " in l][:1]
                    res["first"] = sig[0][:300] if sig else ""
                    break
                if rc == 2:
                    res.setdefault("machinery_errors", []).append(c)
        if res["status"] == "SURVIVED" and res.get("machinery_errors"):
            res["status"] = "machinery-error"
        res["seconds"] = round(time.time() - t0, 1)
        report["results"].append(res)
        print(res["status"], rel, li + 1, repr(old), "->", repr(new), res.get("detected_by", ""), res["seconds"], flush=True)
        open(path, "w").write("\n".join(lines[:li] + [orig] + lines[li + 1:]))
        sh(f"git -C {repo} checkout -- .")
        json.dump(report, open(a.out, "w"), indent=1)
    st_count = {}
    for r in report["results"]:
        st_count[r["status"]] = st_count.get(r["status"], 0) + 1
    report["summary"] = st_count
    json.dump(report, open(a.out, "w"), indent=1)
    print("summary", st_count)
    for r in report["results"]:
        if r["status"] == "SURVIVED":
            print("SURVIVOR", r["file"], r["line"], r["original"], "=>", r["mutated"])
    sh(f"git -C /repo worktree remove --force {repo}")
    shutil.rmtree(st, ignore_errors=True)


if __name__ == "__main__":
    main()
