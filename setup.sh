#!/bin/bash
# Offline build of the harness (MANIFEST.setup_cmd). Everything comes from the cargo cache.
ROOT="$(cd "$(dirname "$0")" && pwd)"
export CARGO_NET_OFFLINE=true
export CARGO_TARGET_DIR="${CARGO_TARGET_DIR:-$ROOT/target}"
cd "$ROOT/harness" && cargo build --release --offline
